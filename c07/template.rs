// C07 checker -- Verus-verified, then compiled and executed on the tables extracted from /repo on this run.
// Each `check_*` function is PROVED (for any table passed in) to return true only if the stated relation between
// the table and the rule holds for EVERY day number 0..=LAST (1970-01-01 .. 2200-12-31).  The tables at the bottom
// (section GENERATED DATA) are produced mechanically by vxlib/c07.py from rust/calendars/named/*.rs,
// rust/calendars/named/mod.rs and python/rateslib/data/*_rfr.csv.
#![allow(unused_imports, unused_variables, dead_code, unused_mut, unused_parens)]
use vstd::prelude::*;
verus! {

pub spec const LAST: int = 84370;   // 2200-12-31

// ------------------------------------------------------------------ Gregorian calendar arithmetic (spec + exec twins)
pub open spec fn s_dow(z: int) -> int { (z + 3) % 7 }  // Monday = 0; day 0 (1970-01-01) is a Thursday

pub open spec fn s_year(z: int) -> int {
    let z0 = z + 719468; let era = z0 / 146097; let doe = z0 - era * 146097;
    let yoe = (doe - doe / 1460 + doe / 36524 - doe / 146096) / 365;
    let doy = doe - (365 * yoe + yoe / 4 - yoe / 100);
    let mp = (5 * doy + 2) / 153;
    let m = if mp < 10 { mp + 3 } else { mp - 9 };
    yoe + era * 400 + if m <= 2 { 1int } else { 0int }
}
pub open spec fn s_month(z: int) -> int {
    let z0 = z + 719468; let era = z0 / 146097; let doe = z0 - era * 146097;
    let yoe = (doe - doe / 1460 + doe / 36524 - doe / 146096) / 365;
    let doy = doe - (365 * yoe + yoe / 4 - yoe / 100);
    let mp = (5 * doy + 2) / 153;
    if mp < 10 { mp + 3 } else { mp - 9 }
}
pub open spec fn s_day(z: int) -> int {
    let z0 = z + 719468; let era = z0 / 146097; let doe = z0 - era * 146097;
    let yoe = (doe - doe / 1460 + doe / 36524 - doe / 146096) / 365;
    let doy = doe - (365 * yoe + yoe / 4 - yoe / 100);
    let mp = (5 * doy + 2) / 153;
    doy - (153 * mp + 2) / 5 + 1
}
/// days from civil (y >= 1, 1 <= m <= 12)
pub open spec fn s_dfc(y: int, m: int, d: int) -> int {
    let yy = if m <= 2 { y - 1 } else { y };
    let era = yy / 400; let yoe = yy - era * 400;
    let mp = if m > 2 { m - 3 } else { m + 9 };
    let doy = (153 * mp + 2) / 5 + d - 1;
    let doe = yoe * 365 + yoe / 4 - yoe / 100 + doy;
    era * 146097 + doe - 719468
}
/// Easter Sunday (anonymous Gregorian computus) as a day number
pub open spec fn s_easter(y: int) -> int {
    let a = y % 19; let b = y / 100; let c = y % 100; let d = b / 4; let e = b % 4;
    let f = (b + 8) / 25; let g = (b - f + 1) / 3; let h = (19 * a + b - d - g + 15) % 30;
    let i = c / 4; let k = c % 4; let l = (32 + 2 * e + 2 * i - h - k) % 7;
    let m = (a + 11 * h + 22 * l) / 451;
    let mo = (h + l - 7 * m + 114) / 31; let da = ((h + l - 7 * m + 114) % 31) + 1;
    s_dfc(y, mo, da)
}

/// civil date of a day number (Hinnant's algorithm; z + 719468 > 0 in range, so era arithmetic is plain division)
#[verifier::spinoff_prover]
pub fn x_civil(z: i64) -> (r: (i64, i64, i64))
    requires -10 <= z <= 100000,
    ensures r.0 == s_year(z as int), r.1 == s_month(z as int), r.2 == s_day(z as int), 1969 <= r.0 <= 2300, 1 <= r.1 <= 12, 1 <= r.2 <= 31,
{
    let z0 = z + 719468;
    let era = z0 / 146097;
    let doe = z0 - era * 146097;
    assert(era == 4 || era == 5);
    assert(0 <= doe < 146097);
    let yoe = (doe - doe / 1460 + doe / 36524 - doe / 146096) / 365;
    assert(0 <= yoe <= 399);
    let doy = doe - (365 * yoe + yoe / 4 - yoe / 100);
    assert(0 <= doy <= 365);
    let mp = (5 * doy + 2) / 153;
    assert(0 <= mp <= 11);
    let d = doy - (153 * mp + 2) / 5 + 1;
    let m = if mp < 10 { mp + 3 } else { mp - 9 };
    let y = yoe + era * 400 + if m <= 2 { 1 } else { 0 };
    (y, m, d)
}
#[verifier::spinoff_prover]
pub fn x_year(z: i64) -> (r: i64) requires -10 <= z <= 100000 ensures r == s_year(z as int), 1969 <= r <= 2300 { x_civil(z).0 }
#[verifier::spinoff_prover]
pub fn x_month(z: i64) -> (r: i64) requires -10 <= z <= 100000 ensures r == s_month(z as int) { x_civil(z).1 }
#[verifier::spinoff_prover]
pub fn x_day(z: i64) -> (r: i64) requires -10 <= z <= 100000 ensures r == s_day(z as int) { x_civil(z).2 }
#[verifier::spinoff_prover]
pub fn x_dfc(y: i64, m: i64, d: i64) -> (r: i64) requires 1900 <= y <= 2400, 1 <= m <= 12, 1 <= d <= 31 ensures r == s_dfc(y as int, m as int, d as int) {
    let yy = if m <= 2 { y - 1 } else { y };
    let era = yy / 400; let yoe = yy - era * 400;
    let mp = if m > 2 { m - 3 } else { m + 9 };
    let doy = (153 * mp + 2) / 5 + d - 1;
    let doe = yoe * 365 + yoe / 4 - yoe / 100 + doy;
    era * 146097 + doe - 719468
}
#[verifier::spinoff_prover]
pub fn x_easter(y: i64) -> (r: i64) requires 1900 <= y <= 2400 ensures r == s_easter(y as int) {
    let a = y % 19; let b = y / 100; let c = y % 100; let d = b / 4; let e = b % 4;
    let f = (b + 8) / 25; let g = (b - f + 1) / 3; let h = (19 * a + b - d - g + 15) % 30;
    let i = c / 4; let k = c % 4; let l = (32 + 2 * e + 2 * i - h - k) % 7;
    let m = (a + 11 * h + 22 * l) / 451;
    let mo = (h + l - 7 * m + 114) / 31; let da = ((h + l - 7 * m + 114) % 31) + 1;
    x_dfc(y, mo, da)
}
#[verifier::spinoff_prover]
pub fn x_dow(z: i64) -> (r: i64) requires -3 <= z <= 100000 ensures r == s_dow(z as int) { (z + 3) % 7 }

// ------------------------------------------------------------------ rule building blocks (pandas Holiday semantics)
pub open spec fn s_fixed(z: int, m: int, d: int) -> bool { s_month(z) == m && s_day(z) == d }
/// Easter Sunday of z's year plus n days
pub open spec fn s_east(z: int, n: int) -> bool { z == s_easter(s_year(z)) + n }
/// weekday `wd` of month m with day of month in lo..=hi  (n-th / last weekday of a month)
pub open spec fn s_nth(z: int, m: int, wd: int, lo: int, hi: int) -> bool { s_month(z) == m && s_dow(z) == wd && lo <= s_day(z) <= hi }
/// observance sunday_to_monday
pub open spec fn s_s2m(z: int, m: int, d: int) -> bool {
    (s_fixed(z, m, d) && s_dow(z) != 6) || (s_fixed(z - 1, m, d) && s_dow(z - 1) == 6)
}
/// observance nearest_workday (Sat -> Fri, Sun -> Mon)
pub open spec fn s_nearest(z: int, m: int, d: int) -> bool {
    (s_fixed(z, m, d) && s_dow(z) < 5) || (s_fixed(z - 1, m, d) && s_dow(z - 1) == 6) || (s_fixed(z + 1, m, d) && s_dow(z + 1) == 5)
}
/// observance next_monday (Sat, Sun -> Mon)
pub open spec fn s_nextmon(z: int, m: int, d: int) -> bool {
    (s_fixed(z, m, d) && s_dow(z) < 5) || (s_fixed(z - 1, m, d) && s_dow(z - 1) == 6) || (s_fixed(z - 2, m, d) && s_dow(z - 2) == 5)
}
/// observance next_monday_or_tuesday (Sat -> Mon, Sun -> Tue, Mon -> Tue)
pub open spec fn s_nextmontue(z: int, m: int, d: int) -> bool {
    (s_fixed(z, m, d) && 1 <= s_dow(z) <= 4) || (s_fixed(z - 2, m, d) && (s_dow(z - 2) == 5 || s_dow(z - 2) == 6)) || (s_fixed(z - 1, m, d) && s_dow(z - 1) == 0)
}

#[verifier::spinoff_prover]
pub fn x_fixed(z: i64, m: i64, d: i64) -> (r: bool) requires -10 <= z <= 100000 ensures r == s_fixed(z as int, m as int, d as int) { x_month(z) == m && x_day(z) == d }
#[verifier::spinoff_prover]
pub fn x_east(z: i64, n: i64) -> (r: bool) requires 0 <= z <= 90000, -100 <= n <= 100 ensures r == s_east(z as int, n as int) { z == x_easter(x_year(z)) + n }
#[verifier::spinoff_prover]
pub fn x_nth(z: i64, m: i64, wd: i64, lo: i64, hi: i64) -> (r: bool) requires -3 <= z <= 100000 ensures r == s_nth(z as int, m as int, wd as int, lo as int, hi as int) {
    let dd = x_day(z);
    x_month(z) == m && x_dow(z) == wd && lo <= dd && dd <= hi
}
#[verifier::spinoff_prover]
pub fn x_s2m(z: i64, m: i64, d: i64) -> (r: bool) requires 0 <= z <= 90000 ensures r == s_s2m(z as int, m as int, d as int) {
    (x_fixed(z, m, d) && x_dow(z) != 6) || (x_fixed(z - 1, m, d) && x_dow(z - 1) == 6)
}
#[verifier::spinoff_prover]
pub fn x_nearest(z: i64, m: i64, d: i64) -> (r: bool) requires 0 <= z <= 90000 ensures r == s_nearest(z as int, m as int, d as int) {
    (x_fixed(z, m, d) && x_dow(z) < 5) || (x_fixed(z - 1, m, d) && x_dow(z - 1) == 6) || (x_fixed(z + 1, m, d) && x_dow(z + 1) == 5)
}
#[verifier::spinoff_prover]
pub fn x_nextmon(z: i64, m: i64, d: i64) -> (r: bool) requires 0 <= z <= 90000 ensures r == s_nextmon(z as int, m as int, d as int) {
    (x_fixed(z, m, d) && x_dow(z) < 5) || (x_fixed(z - 1, m, d) && x_dow(z - 1) == 6) || (x_fixed(z - 2, m, d) && x_dow(z - 2) == 5)
}
#[verifier::spinoff_prover]
pub fn x_nextmontue(z: i64, m: i64, d: i64) -> (r: bool) requires 0 <= z <= 90000 ensures r == s_nextmontue(z as int, m as int, d as int) {
    let w = x_dow(z);
    (x_fixed(z, m, d) && 1 <= w && w <= 4) || (x_fixed(z - 2, m, d) && (x_dow(z - 2) == 5 || x_dow(z - 2) == 6)) || (x_fixed(z - 1, m, d) && x_dow(z - 1) == 0)
}

pub open spec fn s_gf(z: int) -> bool { s_east(z, -2) }
#[verifier::spinoff_prover]
pub fn x_gf(z: i64) -> (r: bool) requires 0 <= z <= 90000 ensures r == s_gf(z as int) { x_east(z, -2) }

// ------------------------------------------------------------------ the published rule sets (from RULES in named/<x>.rs and <x>_script.py)
// calendar codes: 0 tgt, 1 nyc, 2 fed, 3 ldn, 4 stk, 5 osl, 6 zur
pub open spec fn s_us(z: int, gf: bool) -> bool {
    s_s2m(z, 1, 1) || (s_year(z) >= 1986 && s_nth(z, 1, 0, 15, 21)) || s_nth(z, 2, 0, 15, 21) || (gf && s_east(z, -2))
    || s_nth(z, 5, 0, 25, 31) || (s_year(z) >= 2022 && s_s2m(z, 6, 19)) || s_nearest(z, 7, 4) || s_nth(z, 9, 0, 1, 7)
    || s_nth(z, 10, 0, 8, 14) || s_s2m(z, 11, 11) || s_nth(z, 11, 3, 22, 28) || s_nearest(z, 12, 25) || z == 17870  // 2018-12-05 (GHW Bush funeral)
}
pub open spec fn s_ldn(z: int) -> bool {
    s_nextmon(z, 1, 1) || s_east(z, -2) || s_east(z, 1)
    || (s_nth(z, 5, 0, 1, 7) && (z < 18262 || z >= 18628))        // early May bank holiday, except 2020 (moved to 2020-05-08)
    || z == 18390                                                   // 2020-05-08
    || (s_nth(z, 5, 0, 25, 31) && (z <= 19113 || z >= 19174))      // spring bank holiday, except 2022 (2022-05-01 / 2022-07-01 window)
    || z == 19145 || z == 19146 || z == 19254 || z == 19485        // 2022-06-02, 2022-06-03, 2022-09-19, 2023-05-08
    || s_nth(z, 8, 0, 25, 31) || s_nextmon(z, 12, 25) || s_nextmontue(z, 12, 26)
}
pub open spec fn s_rule(cal: int, z: int) -> bool {
    if cal == 0 { s_fixed(z, 1, 1) || s_east(z, -2) || s_east(z, 1) || s_fixed(z, 5, 1) || s_fixed(z, 12, 25) || s_fixed(z, 12, 26) }
    else if cal == 1 { s_us(z, true) }
    else if cal == 2 { s_us(z, false) }
    else if cal == 3 { s_ldn(z) }
    else if cal == 4 { s_fixed(z, 1, 1) || s_fixed(z, 1, 6) || s_east(z, -2) || s_east(z, 1) || s_fixed(z, 5, 1) || s_east(z, 39) || s_fixed(z, 6, 6)
                       || s_nth(z, 6, 4, 19, 25) || s_fixed(z, 12, 24) || s_fixed(z, 12, 25) || s_fixed(z, 12, 26) || s_fixed(z, 12, 31) }
    else if cal == 5 { s_fixed(z, 1, 1) || s_east(z, -3) || s_east(z, -2) || s_east(z, 1) || s_fixed(z, 5, 1) || s_fixed(z, 5, 17) || s_east(z, 39)
                       || s_east(z, 50) || s_fixed(z, 12, 24) || s_fixed(z, 12, 25) || s_fixed(z, 12, 26) }
    else { s_fixed(z, 1, 1) || s_fixed(z, 1, 2) || s_east(z, -2) || s_east(z, 1) || s_fixed(z, 5, 1) || s_east(z, 39) || s_east(z, 50) || s_fixed(z, 8, 1)
           || s_fixed(z, 12, 25) || s_fixed(z, 12, 26) }
}

#[verifier::spinoff_prover]
pub fn x_us(z: i64, gf: bool) -> (r: bool) requires 0 <= z <= 90000 ensures r == s_us(z as int, gf) {
    let y = x_year(z);
    x_s2m(z, 1, 1) || (y >= 1986 && x_nth(z, 1, 0, 15, 21)) || x_nth(z, 2, 0, 15, 21) || (gf && x_east(z, -2))
    || x_nth(z, 5, 0, 25, 31) || (y >= 2022 && x_s2m(z, 6, 19)) || x_nearest(z, 7, 4) || x_nth(z, 9, 0, 1, 7)
    || x_nth(z, 10, 0, 8, 14) || x_s2m(z, 11, 11) || x_nth(z, 11, 3, 22, 28) || x_nearest(z, 12, 25) || z == 17870
}
#[verifier::spinoff_prover]
pub fn x_ldn(z: i64) -> (r: bool) requires 0 <= z <= 90000 ensures r == s_ldn(z as int) {
    x_nextmon(z, 1, 1) || x_east(z, -2) || x_east(z, 1)
    || (x_nth(z, 5, 0, 1, 7) && (z < 18262 || z >= 18628))
    || z == 18390
    || (x_nth(z, 5, 0, 25, 31) && (z <= 19113 || z >= 19174))
    || z == 19145 || z == 19146 || z == 19254 || z == 19485
    || x_nth(z, 8, 0, 25, 31) || x_nextmon(z, 12, 25) || x_nextmontue(z, 12, 26)
}
#[verifier::spinoff_prover]
pub fn x_rule(cal: u8, z: i64) -> (r: bool) requires 0 <= z <= 90000 ensures r == s_rule(cal as int, z as int) {
    if cal == 0 { x_fixed(z, 1, 1) || x_east(z, -2) || x_east(z, 1) || x_fixed(z, 5, 1) || x_fixed(z, 12, 25) || x_fixed(z, 12, 26) }
    else if cal == 1 { x_us(z, true) }
    else if cal == 2 { x_us(z, false) }
    else if cal == 3 { x_ldn(z) }
    else if cal == 4 { x_fixed(z, 1, 1) || x_fixed(z, 1, 6) || x_east(z, -2) || x_east(z, 1) || x_fixed(z, 5, 1) || x_east(z, 39) || x_fixed(z, 6, 6)
                       || x_nth(z, 6, 4, 19, 25) || x_fixed(z, 12, 24) || x_fixed(z, 12, 25) || x_fixed(z, 12, 26) || x_fixed(z, 12, 31) }
    else if cal == 5 { x_fixed(z, 1, 1) || x_east(z, -3) || x_east(z, -2) || x_east(z, 1) || x_fixed(z, 5, 1) || x_fixed(z, 5, 17) || x_east(z, 39)
                       || x_east(z, 50) || x_fixed(z, 12, 24) || x_fixed(z, 12, 25) || x_fixed(z, 12, 26) }
    else { x_fixed(z, 1, 1) || x_fixed(z, 1, 2) || x_east(z, -2) || x_east(z, 1) || x_fixed(z, 5, 1) || x_east(z, 39) || x_east(z, 50) || x_fixed(z, 8, 1)
           || x_fixed(z, 12, 25) || x_fixed(z, 12, 26) }
}

// ------------------------------------------------------------------ sorted tables
pub open spec fn sorted(t: Seq<i64>) -> bool { forall|a: int, b: int| 0 <= a < b < t.len() ==> t[a] < t[b] }

#[verifier::spinoff_prover]
pub fn is_sorted(t: &Vec<i64>) -> (r: bool) ensures r ==> sorted(t@) {
    let mut i: usize = 1;
    if t.len() < 2 { return true; }
    while i < t.len()
        invariant 1 <= i <= t.len(), forall|a: int, b: int| 0 <= a < b < i ==> t@[a] < t@[b],
        decreases t.len() - i,
    {
        if t[i - 1] >= t[i] { return false; }
        proof {
            assert forall|a: int, b: int| 0 <= a < b < i + 1 implies t@[a] < t@[b] by {
                if b == i as int { if a < i - 1 { assert(t@[a] < t@[i - 1]); } }
            }
        }
        i += 1;
    }
    true
}

/// position pointer: all entries before p are < z, entry p (if any) is >= z  ==>  membership of z is decided at p
pub proof fn lemma_member(t: Seq<i64>, p: int, z: i64)
    requires sorted(t), 0 <= p <= t.len(), forall|a: int| 0 <= a < p ==> t[a] < z, p < t.len() ==> t[p] >= z,
    ensures t.contains(z) <==> (p < t.len() && t[p] == z),
{
    if t.contains(z) {
        let j = choose|j: int| 0 <= j < t.len() && t[j] == z;
        if j < p { assert(t[j] < z); }
        if j > p { assert(t[p] < t[j]); }
    }
}

/// rule <=> table on every weekday of 1970-2200
/// on a weekday z: z is in the table iff the published rules of calendar `cal` make z a holiday
pub open spec fn iff_at(cal: int, t: Seq<i64>, z: int) -> bool { s_dow(z) < 5 ==> (t.contains(z as i64) <==> s_rule(cal, z)) }

#[verifier::spinoff_prover]
pub fn check_iff(cal: u8, t: &Vec<i64>) -> (ok: bool)
    ensures ok ==> forall|z: int| 0 <= z <= LAST ==> #[trigger] iff_at(cal as int, t@, z),
{
    if !is_sorted(t) { return false; }
    let mut p: usize = 0;
    let mut z: i64 = 0;
    while z <= 84370
        invariant
            0 <= z <= 84371, sorted(t@), 0 <= p <= t.len(),
            forall|a: int| 0 <= a < p ==> t@[a] < z,
            forall|y: int| 0 <= y < z ==> #[trigger] iff_at(cal as int, t@, y),
        decreases 84371 - z,
    {
        while p < t.len() && t[p] < z
            invariant 0 <= p <= t.len(), sorted(t@), forall|a: int| 0 <= a < p ==> t@[a] < z,
            decreases t.len() - p,
        { p += 1; }
        let in_table = p < t.len() && t[p] == z;
        proof { lemma_member(t@, p as int, z); }
        if x_dow(z) < 5 {
            if in_table != x_rule(cal, z) { return false; }
        }
        proof {
            assert(iff_at(cal as int, t@, z as int));
            assert forall|a: int| 0 <= a < p implies t@[a] < z + 1 by { }
        }
        z += 1;
    }
    true
}

/// every weekday occurrence of the listed fixed dates and Easter-linked offsets is in the table
pub open spec fn s_any_fixed(z: int, fixed: Seq<(i64, i64)>) -> bool { exists|i: int| 0 <= i < fixed.len() && s_fixed(z, fixed[i].0 as int, fixed[i].1 as int) }
pub open spec fn s_any_easter(z: int, easter: Seq<i64>) -> bool { exists|i: int| 0 <= i < easter.len() && s_east(z, easter[i] as int) }

#[verifier::spinoff_prover]
pub fn x_any_fixed(z: i64, fixed: &Vec<(i64, i64)>) -> (r: bool) requires 0 <= z <= 84370 ensures r == s_any_fixed(z as int, fixed@) {
    let mut i: usize = 0;
    while i < fixed.len()
        invariant 0 <= i <= fixed.len(), 0 <= z <= 84370, forall|j: int| 0 <= j < i ==> !s_fixed(z as int, fixed@[j].0 as int, fixed@[j].1 as int),
        decreases fixed.len() - i,
    {
        if x_fixed(z, fixed[i].0, fixed[i].1) { return true; }
        i += 1;
    }
    false
}
#[verifier::spinoff_prover]
pub fn x_any_easter(z: i64, easter: &Vec<i64>) -> (r: bool)
    requires 0 <= z <= 84370, forall|i: int| 0 <= i < easter@.len() ==> -100 <= #[trigger] easter@[i] <= 100,
    ensures r == s_any_easter(z as int, easter@),
{
    let mut k: usize = 0;
    while k < easter.len()
        invariant 0 <= k <= easter.len(), 0 <= z <= 84370, forall|i: int| 0 <= i < easter@.len() ==> -100 <= #[trigger] easter@[i] <= 100,
            forall|j: int| 0 <= j < k ==> !s_east(z as int, easter@[j] as int),
        decreases easter.len() - k,
    {
        if x_east(z, easter[k]) { return true; }
        k += 1;
    }
    false
}

/// a weekday z that is one of the listed fixed dates or Easter-linked days is in the table
pub open spec fn doc_at(t: Seq<i64>, fixed: Seq<(i64, i64)>, easter: Seq<i64>, z: int) -> bool {
    s_dow(z) < 5 && (s_any_fixed(z, fixed) || s_any_easter(z, easter)) ==> t.contains(z as i64)
}

#[verifier::spinoff_prover]
pub fn check_contains_fixed_and_easter(t: &Vec<i64>, fixed: &Vec<(i64, i64)>, easter: &Vec<i64>) -> (ok: bool)
    requires forall|i: int| 0 <= i < easter@.len() ==> -100 <= #[trigger] easter@[i] <= 100,
    ensures ok ==> forall|z: int| 0 <= z <= LAST ==> #[trigger] doc_at(t@, fixed@, easter@, z),
{
    if !is_sorted(t) { return false; }
    let mut p: usize = 0;
    let mut z: i64 = 0;
    while z <= 84370
        invariant
            0 <= z <= 84371, sorted(t@), 0 <= p <= t.len(),
            forall|i: int| 0 <= i < easter@.len() ==> -100 <= #[trigger] easter@[i] <= 100,
            forall|a: int| 0 <= a < p ==> t@[a] < z,
            forall|y: int| 0 <= y < z ==> #[trigger] doc_at(t@, fixed@, easter@, y),
        decreases 84371 - z,
    {
        while p < t.len() && t[p] < z
            invariant 0 <= p <= t.len(), sorted(t@), forall|a: int| 0 <= a < p ==> t@[a] < z,
            decreases t.len() - p,
        { p += 1; }
        let in_table = p < t.len() && t[p] == z;
        proof { lemma_member(t@, p as int, z); }
        if x_dow(z) < 5 && !in_table {
            if x_any_fixed(z, fixed) || x_any_easter(z, easter) { return false; }
        }
        proof { assert(doc_at(t@, fixed@, easter@, z as int)); assert forall|a: int| 0 <= a < p implies t@[a] < z + 1 by { } }
        z += 1;
    }
    true
}

/// b == a minus the Good Fridays:  for every day, b contains it iff (a contains it and it is not a Good Friday)
pub open spec fn minus_gf_at(a: Seq<i64>, b: Seq<i64>, z: int) -> bool { b.contains(z as i64) <==> (a.contains(z as i64) && !s_gf(z)) }

#[verifier::spinoff_prover]
pub fn check_minus_good_friday(a: &Vec<i64>, b: &Vec<i64>) -> (ok: bool)
    ensures ok ==> forall|z: int| 0 <= z <= LAST ==> #[trigger] minus_gf_at(a@, b@, z),
{
    if !is_sorted(a) || !is_sorted(b) { return false; }
    let mut p: usize = 0;
    let mut q: usize = 0;
    let mut z: i64 = 0;
    while z <= 84370
        invariant
            0 <= z <= 84371, sorted(a@), sorted(b@), 0 <= p <= a.len(), 0 <= q <= b.len(),
            forall|i: int| 0 <= i < p ==> a@[i] < z, forall|i: int| 0 <= i < q ==> b@[i] < z,
            forall|y: int| 0 <= y < z ==> #[trigger] minus_gf_at(a@, b@, y),
        decreases 84371 - z,
    {
        while p < a.len() && a[p] < z
            invariant 0 <= p <= a.len(), sorted(a@), forall|i: int| 0 <= i < p ==> a@[i] < z,
            decreases a.len() - p,
        { p += 1; }
        while q < b.len() && b[q] < z
            invariant 0 <= q <= b.len(), sorted(b@), forall|i: int| 0 <= i < q ==> b@[i] < z,
            decreases b.len() - q,
        { q += 1; }
        let in_a = p < a.len() && a[p] == z;
        let in_b = q < b.len() && b[q] == z;
        proof { lemma_member(a@, p as int, z); lemma_member(b@, q as int, z); }
        let gf = x_gf(z);
        if in_b != (in_a && !gf) { return false; }
        proof {
            assert(minus_gf_at(a@, b@, z as int));
            assert forall|i: int| 0 <= i < p implies a@[i] < z + 1 by { }
            assert forall|i: int| 0 <= i < q implies b@[i] < z + 1 by { }
        }
        z += 1;
    }
    true
}

/// business days (weekday not in `mask`, not in the holiday table) of [lo, hi] are exactly the publication dates `pubd`
/// day z is a publication date iff it is a business day (weekday not masked, not in the holiday table)
pub open spec fn bus_at(hol: Seq<i64>, mask: Seq<i64>, pubd: Seq<i64>, z: int) -> bool {
    pubd.contains(z as i64) <==> (!mask.contains(s_dow(z) as i64) && !hol.contains(z as i64))
}

#[verifier::spinoff_prover]
pub fn check_business_days(hol: &Vec<i64>, mask: &Vec<i64>, pubd: &Vec<i64>, lo: i64, hi: i64) -> (ok: bool)
    requires 0 <= lo <= hi <= 84370,
    ensures ok ==> forall|z: int| lo <= z <= hi ==> #[trigger] bus_at(hol@, mask@, pubd@, z),
{
    if !is_sorted(hol) || !is_sorted(pubd) { return false; }
    let mut p: usize = 0;
    let mut q: usize = 0;
    let mut z: i64 = lo;
    while z <= hi
        invariant
            lo <= z <= hi + 1, 0 <= lo <= hi <= 84370, sorted(hol@), sorted(pubd@), 0 <= p <= hol.len(), 0 <= q <= pubd.len(),
            forall|i: int| 0 <= i < p ==> hol@[i] < z, forall|i: int| 0 <= i < q ==> pubd@[i] < z,
            forall|y: int| lo <= y < z ==> #[trigger] bus_at(hol@, mask@, pubd@, y),
        decreases hi + 1 - z,
    {
        while p < hol.len() && hol[p] < z
            invariant 0 <= p <= hol.len(), sorted(hol@), forall|i: int| 0 <= i < p ==> hol@[i] < z,
            decreases hol.len() - p,
        { p += 1; }
        while q < pubd.len() && pubd[q] < z
            invariant 0 <= q <= pubd.len(), sorted(pubd@), forall|i: int| 0 <= i < q ==> pubd@[i] < z,
            decreases pubd.len() - q,
        { q += 1; }
        let in_h = p < hol.len() && hol[p] == z;
        let in_p = q < pubd.len() && pubd[q] == z;
        proof { lemma_member(hol@, p as int, z); lemma_member(pubd@, q as int, z); }
        let w = x_dow(z);
        let mut masked = false;
        let mut k: usize = 0;
        while k < mask.len()
            invariant 0 <= k <= mask.len(), masked <==> exists|j: int| 0 <= j < k && mask@[j] == w,
            decreases mask.len() - k,
        {
            if mask[k] == w { masked = true; }
            k += 1;
        }
        proof {
            assert(masked <==> mask@.contains(w)) by {
                if mask@.contains(w) { let j = choose|j: int| 0 <= j < mask@.len() && mask@[j] == w; }
            }
        }
        if in_p != (!masked && !in_h) { return false; }
        proof {
            let zi = z as int;
            assert(in_h <==> hol@.contains(z));
            assert(in_p <==> pubd@.contains(z));
            assert(w == s_dow(zi) as i64);
            assert(bus_at(hol@, mask@, pubd@, zi));
            assert forall|i: int| 0 <= i < p implies hol@[i] < z + 1 by { }
            assert forall|i: int| 0 <= i < q implies pubd@[i] < z + 1 by { }
        }
        z += 1;
    }
    true
}

#[verifier::external_body]
#[verifier::spinoff_prover]
pub fn emit(name: &str, ok: bool) { println!("{{\"check\":\"{}\",\"ok\":{}}}", name, ok); }

//@GENERATED_DATA@

} // verus!
