#!/usr/bin/env python3
"""Writes the systematic part of contracts/dual_ops.vx (one extract block + req/post spec pair +
forwarders per operator body of rust/dual/dual_ops/*.rs).  The rule table below is the oracle
(textbook partial derivatives); proof hints are per entry.  Run by hand; the output is committed."""
import os

ROOT = os.path.dirname(os.path.dirname(os.path.abspath(__file__)))

HEADER = r'''// Unit `dual_ops`: rust/dual/dual_ops/*.rs -- GENERATED skeleton by tools/gen_dual_ops_vx.py (contracts written in
// that script's rule table), plus hand-written sections at the end.  Serves C01 C02 C03 C18 C19.
//@ include-lib contracts/dual_core.vx
//@ include spec/ad.rs

use core::ops::{Add, Sub, Mul, Div, Neg, Rem};
use core::cmp::Ordering;

//@ include contracts/dual_ops_head.vx

'''

# (file, macro, index, fn name, trait, method, A, B, C, commutative, req, post, props, extra directives, hints)
X = "a.real@"
Y = "b.real@"
YF = "b@"
XF = "a@"

OPS = []


def binop(file, macro, k, name, Tr, m, A, B, C, comm, req, post, props, extra="", body_start="", before=None, after=None):
    OPS.append(dict(file=file, macro=macro, k=k, name=name, Tr=Tr, m=m, A=A, B=B, C=C, comm=comm, req=req, post=post, props=props, extra=extra, body_start=body_start, before=before or [], after=after or []))


# shape invariants come from the type invariants of Dual / Dual2 (use_type_invariant at body start), not from preconditions
WF1 = "true"
WF2 = "true"
WF1B = "true"
WF2B = "true"

def BR2(C):
    return [(C + " {", 0, "proof { assert(@POST@); }"), (C + " {", 1, "proof { assert(@POSTXY@); assert(@POST@); }")]


def HINT2(C, h0, h1):
    """per-branch hints: h0/h1 are templates with {P},{Q} = the aligned operands of that branch (a,b / x,y)"""
    def mk(h, P, Q, xy):
        body = h.replace("{P}", P).replace("{Q}", Q)
        post = "assert(@POSTXY@); assert(@POST@);" if xy else "assert(@POST@);"
        return "proof { " + body + " " + post + " }"
    return [(C + " {", 0, mk(h0, "a", "b", False)), (C + " {", 1, mk(h1, "x", "y", True))]


MUL1 = "assert forall|n: String| #[trigger] vx_tail.s_grad(n) == {Q}.real@ * {P}.s_grad(n) + {P}.real@ * {Q}.s_grad(n) by { alg_mul1({P}.s_grad(n), {Q}.s_grad(n), {P}.real@, {Q}.real@); }"
MUL2 = MUL1 + " assert forall|n: String, k: String| #[trigger] vx_tail.s_hess(n, k) == hess_rule({P}.s_hess(n, k), {Q}.s_hess(n, k), {P}.s_grad(n), {P}.s_grad(k), {Q}.s_grad(n), {Q}.s_grad(k), {Q}.real@, {P}.real@, 0real, 1real, 0real) by { alg_mul2({P}.s_hess(n, k), {Q}.s_hess(n, k), {P}.s_grad(n), {P}.s_grad(k), {Q}.s_grad(n), {Q}.s_grad(k), {P}.real@, {Q}.real@); }"

# ---- add.rs
binop("add", "impl_op_ex_commutative", 0, "op_add_dual_f64", "Add", "add", "&Dual", "&R64", "Dual", True,
      WF1, f"un1_post(a, r, {X} + {YF}, 1real)", "C01")
binop("add", "impl_op_ex_commutative", 1, "op_add_dual2_f64", "Add", "add", "&Dual2", "&R64", "Dual2", True,
      WF2, f"un2_post(a, r, {X} + {YF}, 1real, 0real)", "C02")
binop("add", "impl_op_ex", 0, "op_add_dual_dual", "Add", "add", "&Dual", "&Dual", "Dual", False,
      WF1B, f"bin1_post(a, b, r, {X} + {Y}, 1real, 1real)", "C01 C03",
      body_start="proof { a.lemma_view_props(); b.lemma_view_props(); }", after=BR2("Dual"))
binop("add", "impl_op_ex", 1, "op_add_dual2_dual2", "Add", "add", "&Dual2", "&Dual2", "Dual2", False,
      WF2B, f"bin2_post(a, b, r, {X} + {Y}, 1real, 1real, 0real, 0real, 0real)", "C02 C03",
      body_start="proof { a.lemma_view_props(); b.lemma_view_props(); }", after=BR2("Dual2"))

# ---- sub.rs
binop("sub", "impl_op_ex", 0, "op_sub_dual_f64", "Sub", "sub", "&Dual", "&R64", "Dual", False,
      WF1, f"un1_post(a, r, {X} - {YF}, 1real)", "C01")
binop("sub", "impl_op_ex", 1, "op_sub_f64_dual", "Sub", "sub", "&R64", "&Dual", "Dual", False,
      "true", f"un1_post(b, r, {XF} - {Y}, -1real)", "C01")
binop("sub", "impl_op_ex", 2, "op_sub_dual2_f64", "Sub", "sub", "&Dual2", "&R64", "Dual2", False,
      WF2, f"un2_post(a, r, {X} - {YF}, 1real, 0real)", "C02")
binop("sub", "impl_op_ex", 3, "op_sub_f64_dual2", "Sub", "sub", "&R64", "&Dual2", "Dual2", False,
      "true", f"un2_post(b, r, {XF} - {Y}, -1real, 0real)", "C02")
binop("sub", "impl_op_ex", 4, "op_sub_dual_dual", "Sub", "sub", "&Dual", "&Dual", "Dual", False,
      WF1B, f"bin1_post(a, b, r, {X} - {Y}, 1real, -1real)", "C01 C03",
      body_start="proof { a.lemma_view_props(); b.lemma_view_props(); }", after=BR2("Dual"))
binop("sub", "impl_op_ex", 5, "op_sub_dual2_dual2", "Sub", "sub", "&Dual2", "&Dual2", "Dual2", False,
      WF2B, f"bin2_post(a, b, r, {X} - {Y}, 1real, -1real, 0real, 0real, 0real)", "C02 C03",
      body_start="proof { a.lemma_view_props(); b.lemma_view_props(); }", after=BR2("Dual2"))

# ---- mul.rs
binop("mul", "impl_op_ex_commutative", 0, "op_mul_dual_f64", "Mul", "mul", "&Dual", "&R64", "Dual", True,
      WF1, f"un1_post(a, r, {X} * {YF}, {YF})", "C01 C10")
binop("mul", "impl_op_ex_commutative", 1, "op_mul_dual2_f64", "Mul", "mul", "&Dual2", "&R64", "Dual2", True,
      WF2, f"un2_post(a, r, {X} * {YF}, {YF}, 0real)", "C02 C10")
binop("mul", "impl_op_ex", 0, "op_mul_dual_dual", "Mul", "mul", "&Dual", "&Dual", "Dual", False,
      WF1B, f"bin1_post(a, b, r, {X} * {Y}, {Y}, {X})", "C01 C03 C10",
      body_start="proof { a.lemma_view_props(); b.lemma_view_props(); }", after=HINT2("Dual", MUL1, MUL1))
binop("mul", "impl_op_ex", 1, "op_mul_dual2_dual2", "Mul", "mul", "&Dual2", "&Dual2", "Dual2", False,
      WF2B, f"bin2_post(a, b, r, {X} * {Y}, {Y}, {X}, 0real, 1real, 0real)", "C02 C03 C10",
      body_start="proof { a.lemma_view_props(); b.lemma_view_props(); }", after=HINT2("Dual2", MUL2, MUL2))



# ---- Number container (C18): same arithmetic as the contained kinds; Dual/Dual2 mixes are refused
NUMOPS = {
    # op: (file, Tr, m, real-expr, idx NN, (macro, idx) N-f64, idx f64-N or None, names)
    "add": ("add", "Add", "add", "{x} + {y}", ("impl_op_ex", 2), ("impl_op_ex_commutative", 2), None, True),
    "sub": ("sub", "Sub", "sub", "{x} - {y}", ("impl_op_ex", 6), ("impl_op_ex", 7), ("impl_op_ex", 8), False),
    "mul": ("mul", "Mul", "mul", "{x} * {y}", ("impl_op_ex", 2), ("impl_op_ex_commutative", 2), None, True),
    "div": ("div", "Div", "div", "{x} / {y}", ("impl_op_ex", 6), ("impl_op_ex", 7), ("impl_op_ex", 8), False),
    "rem": ("rem", "Rem", "rem", "r_rem({x}, {y})", ("impl_op_ex", 6), ("impl_op_ex", 7), ("impl_op_ex", 8), False),
}
NUM_EXTRA = []


def num_specs(op):
    file, Tr, m, rexpr, nn, nf, fn_, comm = NUMOPS[op]
    nz = op in ("div", "rem")
    def nm(l, r):  # name of the contained-kind operator body
        if comm and l == "f64":
            return f"op_{op}_{r}_f64", True
        return f"op_{op}_{l}_{r}", False
    def call(kind, l, r, la, ra, res=None):
        n, sw = nm(l, r)
        a1, a2 = (ra, la) if sw else (la, ra)
        if kind == "req":
            return f"{n}_req({a1}, {a2})"
        return f"{n}_post({a1}, {a2}, {res})"
    fr = rexpr.format(x="f@", y="g@")
    req_ff = "g@ != 0real" if nz else "true"
    NN_req = f"""match (*a, *b) {{
        (Number::F64(f), Number::F64(g)) => {req_ff},
        (Number::F64(f), Number::Dual(d)) => {call('req', 'f64', 'dual', '&f', '&d')},
        (Number::F64(f), Number::Dual2(d)) => {call('req', 'f64', 'dual2', '&f', '&d')},
        (Number::Dual(d), Number::F64(g)) => {call('req', 'dual', 'f64', '&d', '&g')},
        (Number::Dual(d), Number::Dual(e)) => {call('req', 'dual', 'dual', '&d', '&e')},
        (Number::Dual(_), Number::Dual2(_)) => false,
        (Number::Dual2(d), Number::F64(g)) => {call('req', 'dual2', 'f64', '&d', '&g')},
        (Number::Dual2(_), Number::Dual(_)) => false,
        (Number::Dual2(d), Number::Dual2(e)) => {call('req', 'dual2', 'dual2', '&d', '&e')},
    }}"""
    NN_post = f"""match (*a, *b) {{
        (Number::F64(f), Number::F64(g)) => r is F64 && r->F64_0@ == {fr},
        (Number::F64(f), Number::Dual(d)) => r is Dual && {call('post', 'f64', 'dual', '&f', '&d', '&r->Dual_0')},
        (Number::F64(f), Number::Dual2(d)) => r is Dual2 && {call('post', 'f64', 'dual2', '&f', '&d', '&r->Dual2_0')},
        (Number::Dual(d), Number::F64(g)) => r is Dual && {call('post', 'dual', 'f64', '&d', '&g', '&r->Dual_0')},
        (Number::Dual(d), Number::Dual(e)) => r is Dual && {call('post', 'dual', 'dual', '&d', '&e', '&r->Dual_0')},
        (Number::Dual(_), Number::Dual2(_)) => true,
        (Number::Dual2(d), Number::F64(g)) => r is Dual2 && {call('post', 'dual2', 'f64', '&d', '&g', '&r->Dual2_0')},
        (Number::Dual2(_), Number::Dual(_)) => true,
        (Number::Dual2(d), Number::Dual2(e)) => r is Dual2 && {call('post', 'dual2', 'dual2', '&d', '&e', '&r->Dual2_0')},
    }}"""
    NF_req = f"""match *a {{
        Number::F64(f) => {"b@ != 0real" if nz else "true"},
        Number::Dual(d) => {call('req', 'dual', 'f64', '&d', 'b')},
        Number::Dual2(d) => {call('req', 'dual2', 'f64', '&d', 'b')},
    }}"""
    NF_post = f"""match *a {{
        Number::F64(f) => r is F64 && r->F64_0@ == {rexpr.format(x="f@", y="b@")},
        Number::Dual(d) => r is Dual && {call('post', 'dual', 'f64', '&d', 'b', '&r->Dual_0')},
        Number::Dual2(d) => r is Dual2 && {call('post', 'dual2', 'f64', '&d', 'b', '&r->Dual2_0')},
    }}"""
    FN_req = f"""match *b {{
        Number::F64(f) => {"f@ != 0real" if nz else "true"},
        Number::Dual(d) => {call('req', 'f64', 'dual', 'a', '&d')},
        Number::Dual2(d) => {call('req', 'f64', 'dual2', 'a', '&d')},
    }}"""
    FN_post = f"""match *b {{
        Number::F64(f) => r is F64 && r->F64_0@ == {rexpr.format(x="a@", y="f@")},
        Number::Dual(d) => r is Dual && {call('post', 'f64', 'dual', 'a', '&d', '&r->Dual_0')},
        Number::Dual2(d) => r is Dual2 && {call('post', 'f64', 'dual2', 'a', '&d', '&r->Dual2_0')},
    }}"""
    return NN_req, NN_post, NF_req, NF_post, FN_req, FN_post


def emit_number(op):
    file, Tr, m, rexpr, nn, nf, fn_, comm = NUMOPS[op]
    NN_req, NN_post, NF_req, NF_post, FN_req, FN_post = num_specs(op)
    out = []
    def block(macro, k, name, A, B, req, post, commutative, refuse=False):
        s = []
        if not refuse:
            s.append(f"pub closed spec fn {name}_req(a: {A}, b: {B}) -> bool {{\n    {req}\n}}\n")
            s.append(f"pub closed spec fn {name}_post(a: {A}, b: {B}, r: &Number) -> bool {{\n    {post}\n}}\n\n")
        s.append(f"//@ extract rust/dual/dual_ops/{file}.rs :: macro {macro} #{k}\n")
        s.append(f"//@ rename {name}{'__refusal' if refuse else ''}\n")
        s.append("//@ props C18\n")
        s.append("//@ opt ufcs float_lits" + (" refuse" if refuse else "") + "\n")
        s.append("//@ subst `f64` => `R64` optional\n")
        s.append("//@ sig\n")
        if refuse:
            s.append("    requires number_mixed(a, b)\n    ensures false\n")
        else:
            s.append(f"    requires {name}_req(a, b)\n    ensures {name}_post(a, b, &r)\n")
        s.append("//@ end\n")
        if not refuse:
            s.append(f"//@ forward {Tr} {m} {name} {A} {B} Number{' commutative' if commutative else ''}\n")
        s.append("\n")
        return "".join(s)
    out.append(f"// ---- Number {op}\n")
    out.append(block(nn[0], nn[1], f"op_{op}_number_number", "&Number", "&Number", NN_req, NN_post, False))
    out.append(block(nn[0], nn[1], f"op_{op}_number_number", "&Number", "&Number", NN_req, NN_post, False, refuse=True))
    out.append(block(nf[0], nf[1], f"op_{op}_number_f64", "&Number", "&R64", NF_req, NF_post, comm))
    if fn_:
        out.append(block(fn_[0], fn_[1], f"op_{op}_f64_number", "&R64", "&Number", FN_req, FN_post, False))
    return "".join(out)


def unop(file, macro, k, name, Tr, m, A, C, req, post, props):
    OPS.append(dict(unary=True, file=file, macro=macro, k=k, name=name, Tr=Tr, m=m, A=A, C=C, req=req, post=post, props=props))


def emit_unary(o):
    s = []
    s.append(f"// ---- {o['file']}.rs : {o['macro']}! #{o['k']}  ({o['Tr']} {o['A']} -> {o['C']})\n")
    s.append(f"pub closed spec fn {o['name']}_req(a: &{o['A'].lstrip('&')}) -> bool {{ {o['req']} }}\n")
    s.append(f"pub closed spec fn {o['name']}_post(a: &{o['A'].lstrip('&')}, r: &{o['C']}) -> bool {{ {o['post']} }}\n\n")
    s.append(f"//@ extract rust/dual/dual_ops/{o['file']}.rs :: macro {o['macro']} #{o['k']}\n")
    s.append(f"//@ rename {o['name']}\n")
    s.append(f"//@ props {o['props']}\n")
    s.append("//@ opt ufcs float_lits identity\n")
    s.append("//@ subst `f64` => `R64` optional\n")
    s.append("//@ sig\n")
    ar = "a" if o['A'].startswith("&") else "&a"
    s.append(f"    requires {o['name']}_req({ar})\n")
    s.append(f"    ensures {o['name']}_post({ar}, &r)\n")
    s.append("//@ body_start\n")
    s.append(f"    proof {{ use_type_invariant({ar}); }}\n")
    s.append("//@ end\n")
    s.append(f"//@ forward1 {o['Tr']} {o['m']} {o['name']} {o['A']} {o['C']}\n\n")
    return "".join(s)



# ---- div.rs
binop("div", "impl_op_ex", 0, "op_div_dual_f64", "Div", "div", "&Dual", "&R64", "Dual", False,
      f"{WF1} && {YF} != 0real", f"un1_post(a, r, {X} / {YF}, 1real / {YF})", "C01")
binop("div", "impl_op_ex", 2, "op_div_dual2_f64", "Div", "div", "&Dual2", "&R64", "Dual2", False,
      f"{WF2} && {YF} != 0real", f"un2_post(a, r, {X} / {YF}, 1real / {YF}, 0real)", "C02")
binop("div", "impl_op_ex", 1, "op_div_f64_dual", "Div", "div", "&R64", "&Dual", "Dual", False,
      f"{Y} != 0real", f"un1_post(b, r, {XF} / {Y}, -{XF} / ({Y} * {Y}))", "C01 C10",
      body_start="proof { b.lemma_view_props(); axiom_pow_small(b.real@); }",
      after=[("a * b.clone().pow", 0, "proof { let y = b.real@; let x = a@; assert(y * y != 0real) by(nonlinear_arith) requires y != 0real; alg_mul_recip(x, y); alg_comm(1real / y, x); alg_mul_recip(x, y * y); alg_neg_recip(x, y * y); assert forall|n: String| #[trigger] vx_tail.s_grad(n) == (-x / (y * y)) * b.s_grad(n) by { alg_scale_neg(x, 1real / (y * y), b.s_grad(n)); } }")])
binop("div", "impl_op_ex", 4, "op_div_dual_dual", "Div", "div", "&Dual", "&Dual", "Dual", False,
      f"{WF1B} && {Y} != 0real", f"bin1_post(a, b, r, {X} / {Y}, 1real / {Y}, -{X} / ({Y} * {Y}))", "C01 C03",
      body_start="proof { a.lemma_view_props(); b.lemma_view_props(); assert(b.real@ * b.real@ != 0real) by(nonlinear_arith) requires b.real@ != 0real; }",
      after=[("a * b_", 0, "proof { let y = b.real@; let x = a.real@; alg_mul_recip(x, y); alg_mul_recip(x, y * y); alg_neg_recip(x, y * y); assert forall|n: String| #[trigger] vx_tail.s_grad(n) == (1real / y) * a.s_grad(n) + (-x / (y * y)) * b.s_grad(n) by { assert(b_.s_grad(n) == (-1real / (y * y)) * b.s_grad(n)); alg_scale_neg2(x, 1real / (y * y), b.s_grad(n)); } }")])

binop("div", "impl_op_ex", 3, "op_div_f64_dual2", "Div", "div", "&R64", "&Dual2", "Dual2", False,
      f"{Y} != 0real", f"un2_post(b, r, {XF} / {Y}, -{XF} / ({Y} * {Y}), 2real * {XF} / ({Y} * {Y} * {Y}))", "C02 C10",
      body_start="proof { b.lemma_view_props(); axiom_pow_small(b.real@); }",
      after=[("a * b.clone().pow", 0, "proof { let y = b.real@; let x = a@; assert(y * y != 0real) by(nonlinear_arith) requires y != 0real; assert(y * y * y != 0real) by(nonlinear_arith) requires y != 0real; let t2 = 1real / (y * y); let t3 = 1real / (y * y * y); alg_mul_recip(x, y); alg_comm(1real / y, x); alg_mul_recip(x, y * y); alg_neg_recip(x, y * y); alg_mul_recip(2real * x, y * y * y); assert(2real * (x * t3) == (2real * x) * t3) by(nonlinear_arith); assert forall|n: String| #[trigger] vx_tail.s_grad(n) == (-x / (y * y)) * b.s_grad(n) by { alg_scale_neg(x, t2, b.s_grad(n)); } assert forall|n: String, k: String| #[trigger] vx_tail.s_hess(n, k) == (-x / (y * y)) * b.s_hess(n, k) + (2real * x / (y * y * y)) * b.s_grad(n) * b.s_grad(k) / 2real by { alg_div2_f64(x, b.s_hess(n, k), b.s_grad(n), b.s_grad(k), t2, t3); } }")])

binop("div", "impl_op_ex", 5, "op_div_dual2_dual2", "Div", "div", "&Dual2", "&Dual2", "Dual2", False,
      f"{WF2B} && {Y} != 0real", f"bin2_post(a, b, r, {X} / {Y}, 1real / {Y}, -{X} / ({Y} * {Y}), 0real, -1real / ({Y} * {Y}), 2real * {X} / ({Y} * {Y} * {Y}))", "C02 C03",
      body_start="proof { a.lemma_view_props(); b.lemma_view_props(); axiom_pow_small(b.real@); }",
      after=[("a * b.clone().pow", 0, "proof { let y = b.real@; let x = a.real@; assert(y * y != 0real) by(nonlinear_arith) requires y != 0real; assert(y * y * y != 0real) by(nonlinear_arith) requires y != 0real; let t2 = 1real / (y * y); let t3 = 1real / (y * y * y); let w1 = 1real / y; alg_mul_recip(x, y); alg_mul_recip(x, y * y); alg_neg_recip(x, y * y); alg_mul_recip(2real * x, y * y * y); assert(2real * (x * t3) == (2real * x) * t3) by(nonlinear_arith); assert forall|n: String| #[trigger] vx_tail.s_grad(n) == (1real / y) * a.s_grad(n) + (-x / (y * y)) * b.s_grad(n) by { alg_scale_neg(x, t2, b.s_grad(n)); } assert forall|n: String, k: String| #[trigger] vx_tail.s_hess(n, k) == hess_rule(a.s_hess(n, k), b.s_hess(n, k), a.s_grad(n), a.s_grad(k), b.s_grad(n), b.s_grad(k), 1real / y, -x / (y * y), 0real, -1real / (y * y), 2real * x / (y * y * y)) by { alg_div2(x, w1, a.s_hess(n, k), b.s_hess(n, k), a.s_grad(n), a.s_grad(k), b.s_grad(n), b.s_grad(k), t2, t3); } }")])


# ---- rem.rs  (C19: a % b == a - trunc(a/b) * b in value and derivatives)
binop("rem", "impl_op_ex", 0, "op_rem_dual_f64", "Rem", "rem", "&Dual", "&R64", "Dual", False,
      f"{WF1} && {YF} != 0real", f"un1_post(a, r, r_rem({X}, {YF}), 1real)", "C19")
binop("rem", "impl_op_ex", 2, "op_rem_dual2_f64", "Rem", "rem", "&Dual2", "&R64", "Dual2", False,
      f"{WF2} && {YF} != 0real", f"un2_post(a, r, r_rem({X}, {YF}), 1real, 0real)", "C19")
binop("rem", "impl_op_ex", 4, "op_rem_dual_dual", "Rem", "rem", "&Dual", "&Dual", "Dual", False,
      f"{WF1B} && {Y} != 0real", f"bin1_post(a, b, r, r_rem({X}, {Y}), 1real, -r_trunc({X} / {Y}))", "C19 C03",
      body_start="proof { a.lemma_view_props(); b.lemma_view_props(); }",
      after=[("a - d * b", 0, "proof { let q = r_trunc(a.real@ / b.real@); alg_comm(b.real@, q); assert forall|n: String| #[trigger] vx_tail.s_grad(n) == 1real * a.s_grad(n) + (-q) * b.s_grad(n) by { alg_neg_mul(q, b.s_grad(n)); } }")])
binop("rem", "impl_op_ex", 5, "op_rem_dual2_dual2", "Rem", "rem", "&Dual2", "&Dual2", "Dual2", False,
      f"{WF2B} && {Y} != 0real", f"bin2_post(a, b, r, r_rem({X}, {Y}), 1real, -r_trunc({X} / {Y}), 0real, 0real, 0real)", "C19 C03",
      body_start="proof { a.lemma_view_props(); b.lemma_view_props(); }",
      after=[("a - d * b", 0, "proof { let q = r_trunc(a.real@ / b.real@); alg_comm(b.real@, q); assert forall|n: String| #[trigger] vx_tail.s_grad(n) == 1real * a.s_grad(n) + (-q) * b.s_grad(n) by { alg_neg_mul(q, b.s_grad(n)); } assert forall|n: String, k: String| #[trigger] vx_tail.s_hess(n, k) == hess_rule(a.s_hess(n, k), b.s_hess(n, k), a.s_grad(n), a.s_grad(k), b.s_grad(n), b.s_grad(k), 1real, -q, 0real, 0real, 0real) by { alg_neg_mul(q, b.s_hess(n, k)); } }")])
binop("rem", "impl_op_ex", 1, "op_rem_f64_dual", "Rem", "rem", "&R64", "&Dual", "Dual", False,
      f"{Y} != 0real", f"un1set_post(b, r, r_rem({XF}, {Y}), -r_trunc({XF} / {Y}))", "C19",
      body_start="proof { b.lemma_view_props(); lemma_dedup_props(Seq::<String>::empty()); }")
binop("rem", "impl_op_ex", 3, "op_rem_f64_dual2", "Rem", "rem", "&R64", "&Dual2", "Dual2", False,
      f"{Y} != 0real", f"un2set_post(b, r, r_rem({XF}, {Y}), -r_trunc({XF} / {Y}), 0real)", "C19",
      body_start="proof { b.lemma_view_props(); lemma_dedup_props(Seq::<String>::empty()); }")

# ---- neg.rs
unop("neg", "impl_op", 0, "op_neg_dual_owned", "Neg", "neg", "Dual", "Dual", "true", "un1_post(a, r, -a.real@, -1real)", "C01")
unop("neg", "impl_op", 1, "op_neg_dual_ref", "Neg", "neg", "&Dual", "Dual", "true", "un1_post(a, r, -a.real@, -1real)", "C01")
unop("neg", "impl_op", 2, "op_neg_dual2_owned", "Neg", "neg", "Dual2", "Dual2", "true", "un2_post(a, r, -a.real@, -1real, 0real)", "C02")
unop("neg", "impl_op", 3, "op_neg_dual2_ref", "Neg", "neg", "&Dual2", "Dual2", "true", "un2_post(a, r, -a.real@, -1real, 0real)", "C02")


def emit(o):
    if o.get("unary"):
        return emit_unary(o)
    s = []
    s.append(f"// ---- {o['file']}.rs : {o['macro']}! #{o['k']}  ({o['A']} {o['Tr']} {o['B']} -> {o['C']})\n")
    s.append(f"pub closed spec fn {o['name']}_req(a: {o['A']}, b: {o['B']}) -> bool {{ {o['req']} }}\n")
    s.append(f"pub closed spec fn {o['name']}_post(a: {o['A']}, b: {o['B']}, r: &{o['C']}) -> bool {{ {o['post']} }}\n\n")
    s.append(f"//@ extract rust/dual/dual_ops/{o['file']}.rs :: macro {o['macro']} #{o['k']}\n")
    s.append(f"//@ rename {o['name']}\n")
    s.append(f"//@ props {o['props']}\n")
    s.append("//@ opt ufcs float_lits identity\n")
    s.append("//@ subst `f64` => `R64` optional\n")
    if o["extra"]:
        s.append(o["extra"].rstrip("\n") + "\n")
    s.append("//@ sig\n")
    s.append(f"    requires {o['name']}_req(a, b)\n")
    s.append(f"    ensures {o['name']}_post(a, b, &r)\n")
    inv = "".join(f"use_type_invariant({v}); " for v, T in (("a", o["A"]), ("b", o["B"])) if T.lstrip("&") in ("Dual", "Dual2"))
    s.append("//@ body_start\n")
    s.append("    proof { " + inv + "}\n")
    if o["body_start"]:
        s.append("//@ body_start\n")
        s.append("    " + o["body_start"] + "\n")
    for (anchor, code) in o["before"]:
        s.append(f"//@ before `{anchor}`\n    {code}\n")
    for (anchor, nth, code) in o["after"]:
        s.append(f"//@ after `{anchor}` #{nth}\n    {code.replace('@POST@', o['name'] + '_post(a, b, &vx_tail)').replace('@POSTXY@', o['name'] + '_post(&x, &y, &vx_tail)')}\n")
    s.append("//@ end\n")
    s.append(f"//@ forward {o['Tr']} {o['m']} {o['name']} {o['A']} {o['B']} {o['C']}{' commutative' if o['comm'] else ''}\n\n")
    return "".join(s)


def main():
    out = HEADER + "".join(emit(o) for o in OPS)
    tail_path = os.path.join(ROOT, "contracts", "dual_ops_tail.vx")
    out += "//@ include contracts/dual_ops_tail.vx\n" if os.path.exists(tail_path) else ""
    out += "\n//@ include contracts/dual_ops_number_head.vx\n\n"
    out += "".join(emit_number(op) for op in ["add", "sub", "mul", "div", "rem"])
    out += "\n//@ canary\n"
    open(os.path.join(ROOT, "contracts", "dual_ops.vx"), "w").write(out)
    print("wrote contracts/dual_ops.vx:", len(OPS), "operator bodies")


if __name__ == "__main__":
    main()
