//! vx-extract: mechanical extraction of function items from /repo sources for Verus.
//!
//! Reads a JSON request (path given as argv[1]), writes a JSON response to stdout.
//! For every requested item the *source text* of the function (signature + body) is
//! copied from the repository file and modified only by
//!   (a) the rewrite rules listed in DESIGN.md §2.2 (each application counted), and
//!   (b) add-only contract splices (signature clauses, loop clauses, ghost statements,
//!       closure header annotations) taken from the request.
//! Nothing else is changed: statement order, control flow, names and literals are the
//! repository's.  Any selector that does not resolve, any anchor that is missing or
//! ambiguous, and any fragment that is not add-only yields `ok=false` for that item –
//! the driver turns that into exit 2 (undecided), never into a violation.

use proc_macro2::{Delimiter, LineColumn, Span, TokenStream, TokenTree};
use serde_json::{json, Map, Value};
use std::collections::BTreeMap;
use syn::parse::{Parse, ParseStream};
use syn::spanned::Spanned;
use syn::visit::Visit;

#[derive(Debug, Clone)]
struct Edit {
    start: usize,
    end: usize,
    text: String,
    seq: usize,
    splice: bool, // true = contract splice (add-only), false = rewrite rule
    prio: i32,    // ordering among insertions at the same offset: wrappers open first (-1) and close last (+1)
}

struct Ctx<'a> {
    src: &'a str,
    edits: Vec<Edit>,
    seq: usize,
    rules: BTreeMap<String, u64>,
}

impl<'a> Ctx<'a> {
    fn ins(&mut self, pos: usize, text: &str, splice: bool) {
        self.seq += 1;
        self.edits.push(Edit { start: pos, end: pos, text: text.to_string(), seq: self.seq, splice, prio: 0 });
    }
    fn ins_prio(&mut self, pos: usize, text: &str, splice: bool, prio: i32) {
        self.seq += 1;
        self.edits.push(Edit { start: pos, end: pos, text: text.to_string(), seq: self.seq, splice, prio });
    }
    fn rep(&mut self, start: usize, end: usize, text: &str) {
        self.seq += 1;
        self.edits.push(Edit { start, end, text: text.to_string(), seq: self.seq, splice: false, prio: 0 });
    }
    fn count(&mut self, rule: &str) {
        *self.rules.entry(rule.to_string()).or_insert(0) += 1;
    }
}

fn br(sp: Span) -> (usize, usize) {
    let r = sp.byte_range();
    (r.start, r.end)
}

fn norm(s: &str) -> String {
    s.split_whitespace().collect::<Vec<_>>().join(" ")
}

// ---------------------------------------------------------------- fragment guards

fn depth0_has(s: &str, chars: &[char]) -> bool {
    let mut depth: i32 = 0;
    let mut in_str = false;
    let mut prev = ' ';
    for c in s.chars() {
        if in_str {
            if c == '"' && prev != '\\' {
                in_str = false;
            }
            prev = c;
            continue;
        }
        match c {
            '"' => in_str = true,
            '(' | '[' | '{' => {
                if depth == 0 && chars.contains(&c) {
                    return true;
                }
                depth += 1
            }
            ')' | ']' | '}' => {
                depth -= 1;
                if depth < 0 {
                    return true;
                }
                if depth == 0 && chars.contains(&c) {
                    return true;
                }
            }
            _ => {
                if depth == 0 && chars.contains(&c) {
                    return true;
                }
            }
        }
        prev = c;
    }
    depth != 0
}

fn strip_comments(s: &str) -> String {
    s.lines()
        .map(|l| match l.find("//") {
            Some(i) => &l[..i],
            None => l,
        })
        .collect::<Vec<_>>()
        .join("\n")
}

/// A signature / loop clause fragment: starts with a spec keyword, no `{`, `}` or `;` at depth 0.
fn check_clause_fragment(s: &str, allowed: &[&str]) -> Result<(), String> {
    let t = strip_comments(s);
    let t = t.trim();
    if t.is_empty() {
        return Ok(());
    }
    let first = t.split(|c: char| !c.is_alphanumeric() && c != '_').next().unwrap_or("");
    if !allowed.contains(&first) {
        return Err(format!("clause fragment must start with one of {:?}, found `{}`", allowed, first));
    }
    if depth0_has(t, &['{', '}', ';']) {
        return Err("clause fragment has `{`, `}` or `;` at depth 0 (not add-only)".into());
    }
    Ok(())
}

/// A ghost statement fragment: a sequence of `proof { .. }` blocks and
/// `assert..;` / `let ghost ..;` / `let tracked ..;` / `broadcast use ..;` / `reveal(..);` statements.
fn check_ghost_fragment(s: &str) -> Result<(), String> {
    let t = strip_comments(s);
    let mut rest = t.trim();
    while !rest.is_empty() {
        let ok_kw = ["proof", "assert", "let ghost", "let tracked", "broadcast use", "reveal", "assume_never_used"];
        let kw = ok_kw.iter().find(|k| rest.starts_with(**k));
        if kw.is_none() || *kw.unwrap() == "assume_never_used" {
            return Err(format!("ghost fragment statement not allowed: `{}`", &rest[..rest.len().min(40)]));
        }
        // find end: first depth-0 `;` or, for proof blocks, the matching `}`
        let mut depth = 0i32;
        let mut end = None;
        let is_proof = rest.starts_with("proof");
        for (i, c) in rest.char_indices() {
            match c {
                '(' | '[' | '{' => depth += 1,
                ')' | ']' | '}' => {
                    depth -= 1;
                    if depth == 0 && c == '}' && is_proof {
                        end = Some(i + 1);
                        break;
                    }
                }
                ';' if depth == 0 => {
                    end = Some(i + 1);
                    break;
                }
                _ => {}
            }
        }
        match end {
            Some(e) => rest = rest[e..].trim_start(),
            None => return Err("unterminated ghost fragment".into()),
        }
    }
    for bad in ["assume(", "admit(", "assume (", "admit ("] {
        if t.contains(bad) {
            return Err(format!("`{}` is forbidden in contract fragments", bad));
        }
    }
    Ok(())
}

// ---------------------------------------------------------------- macro-closure (auto_ops) parser

struct OpClosure {
    op: String,
    pipe1: Span,
    pipe2: Span,
    n_inputs: usize,
    ret: syn::Type,
    block: syn::Block,
}

impl Parse for OpClosure {
    fn parse(input: ParseStream) -> syn::Result<Self> {
        let mut op = String::new();
        // operator puncts up to the first `|`
        loop {
            if input.peek(syn::Token![|]) {
                break;
            }
            let tt: TokenTree = input.parse()?;
            match tt {
                TokenTree::Punct(p) => op.push(p.as_char()),
                other => return Err(syn::Error::new(other.span(), "expected operator")),
            }
        }
        let p1: syn::Token![|] = input.parse()?;
        let mut n = 0;
        loop {
            if input.peek(syn::Token![|]) {
                break;
            }
            let _id: syn::Ident = input.parse()?;
            let _c: syn::Token![:] = input.parse()?;
            let _t: syn::Type = input.parse()?;
            n += 1;
            if input.peek(syn::Token![,]) {
                let _: syn::Token![,] = input.parse()?;
            }
        }
        let p2: syn::Token![|] = input.parse()?;
        let _: syn::Token![->] = input.parse()?;
        let ret: syn::Type = input.parse()?;
        let block: syn::Block = input.parse()?;
        Ok(OpClosure { op, pipe1: p1.span, pipe2: p2.span, n_inputs: n, ret, block })
    }
}

// ---------------------------------------------------------------- item location

enum Found<'a> {
    Fn { start: usize, sig: &'a syn::Signature, block: Option<&'a syn::Block>, end: usize, attrs: &'a [syn::Attribute], pub_vis: Option<(usize, usize)> },
    Mac { mac: &'a syn::Macro },
}

fn has_cfg_test(attrs: &[syn::Attribute]) -> bool {
    attrs.iter().any(|a| {
        a.path().is_ident("cfg") && a.meta.require_list().map(|l| l.tokens.to_string().contains("test")).unwrap_or(false)
    })
}

fn type_last_ident(t: &syn::Type) -> Option<String> {
    match t {
        syn::Type::Path(p) => p.path.segments.last().map(|s| s.ident.to_string()),
        syn::Type::Reference(r) => type_last_ident(&r.elem),
        _ => None,
    }
}

fn type_text(src: &str, t: &syn::Type) -> String {
    let (a, b) = br(t.span());
    norm(&src[a..b])
}

fn fn_start(vis: Option<&syn::Visibility>, sig: &syn::Signature) -> usize {
    let mut s = br(sig.span()).0;
    if let Some(v) = vis {
        if !matches!(v, syn::Visibility::Inherited) {
            s = s.min(br(v.span()).0);
        }
    }
    s
}

/// Selector grammar (parts separated by ` :: `):
///   fn NAME
///   trait T :: fn NAME
///   impl T :: fn NAME              (inherent impl; `impl T#k` picks the k-th such impl with that fn)
///   impl Tr for T :: fn NAME       (T and Tr compared on normalised source text, generics included)
///   macro NAME #k                  (k-th top-level invocation of NAME!, 0-based)
fn find_item<'a>(src: &str, items: &'a [syn::Item], sel: &str) -> Result<Found<'a>, String> {
    let parts: Vec<&str> = sel.split(" :: ").map(|s| s.trim()).collect();
    let mut flat: Vec<&'a syn::Item> = Vec::new();
    fn flatten<'a>(items: &'a [syn::Item], out: &mut Vec<&'a syn::Item>) {
        for it in items {
            match it {
                syn::Item::Mod(m) => {
                    if has_cfg_test(&m.attrs) {
                        continue;
                    }
                    if let Some((_, inner)) = &m.content {
                        flatten(inner, out);
                    }
                }
                _ => out.push(it),
            }
        }
    }
    flatten(items, &mut flat);

    let head = parts[0];
    if let Some(name) = head.strip_prefix("fn ") {
        if parts.len() != 1 {
            return Err("bad selector".into());
        }
        let name = name.trim();
        let mut found = Vec::new();
        for it in &flat {
            if let syn::Item::Fn(f) = it {
                if f.sig.ident == name {
                    found.push(f);
                }
            }
        }
        if found.len() != 1 {
            return Err(format!("`{}`: {} matches", sel, found.len()));
        }
        let f = found[0];
        return Ok(Found::Fn {
            start: fn_start(Some(&f.vis), &f.sig),
            sig: &f.sig,
            block: Some(&f.block),
            end: br(f.block.span()).1,
            attrs: &f.attrs,
            pub_vis: match &f.vis { syn::Visibility::Public(p) => Some(br(p.span)), _ => None },
        });
    }
    if let Some(rest) = head.strip_prefix("macro ") {
        let mut it = rest.split('#');
        let name = it.next().unwrap().trim();
        let k: usize = it.next().ok_or("macro selector needs #k")?.trim().parse().map_err(|_| "bad #k")?;
        let mut n = 0;
        for item in &flat {
            if let syn::Item::Macro(m) = item {
                if m.mac.path.segments.last().map(|s| s.ident == name).unwrap_or(false) {
                    if n == k {
                        return Ok(Found::Mac { mac: &m.mac });
                    }
                    n += 1;
                }
            }
        }
        return Err(format!("`{}`: only {} invocations", sel, n));
    }
    if parts.len() != 2 {
        return Err(format!("bad selector `{}`", sel));
    }
    let fname = parts[1].strip_prefix("fn ").ok_or("second selector part must be `fn NAME`")?.trim();
    if let Some(tname) = head.strip_prefix("trait ") {
        let tname = tname.trim();
        for it in &flat {
            if let syn::Item::Trait(t) = it {
                if t.ident == tname {
                    for ti in &t.items {
                        if let syn::TraitItem::Fn(f) = ti {
                            if f.sig.ident == fname {
                                let end = match (&f.default, &f.semi_token) {
                                    (Some(b), _) => br(b.span()).1,
                                    (None, Some(s)) => br(s.span).1,
                                    _ => br(f.sig.span()).1,
                                };
                                return Ok(Found::Fn {
                                    start: fn_start(None, &f.sig),
                                    sig: &f.sig,
                                    block: f.default.as_ref(),
                                    end,
                                    attrs: &f.attrs,
                                    pub_vis: None,
                                });
                            }
                        }
                    }
                }
            }
        }
        return Err(format!("`{}` not found", sel));
    }
    if let Some(spec) = head.strip_prefix("impl ") {
        let (spec, pick) = match spec.split_once('#') {
            Some((a, b)) => (a.trim(), Some(b.trim().parse::<usize>().map_err(|_| "bad #k")?)),
            None => (spec.trim(), None),
        };
        let (want_trait, want_ty) = match spec.split_once(" for ") {
            Some((a, b)) => (Some(norm(a)), norm(b)),
            None => (None, norm(spec)),
        };
        let mut found = Vec::new();
        for it in &flat {
            if let syn::Item::Impl(im) = it {
                let ty = type_text(src, &im.self_ty);
                let ty_ok = ty == want_ty || (!matches!(*im.self_ty, syn::Type::Reference(_)) && type_last_ident(&im.self_ty).map(|s| s == want_ty).unwrap_or(false));
                let tr_ok = match (&want_trait, &im.trait_) {
                    (None, None) => true,
                    (Some(w), Some((_, p, _))) => {
                        let (a, b) = br(p.span());
                        let full = norm(&src[a..b]);
                        full == *w || p.segments.last().map(|s| s.ident.to_string() == *w).unwrap_or(false)
                    }
                    _ => false,
                };
                if ty_ok && tr_ok {
                    for ii in &im.items {
                        if let syn::ImplItem::Fn(f) = ii {
                            if f.sig.ident == fname {
                                found.push(f);
                            }
                        }
                    }
                }
            }
        }
        let f = match (found.len(), pick) {
            (1, None) => found[0],
            (n, Some(k)) if k < n => found[k],
            (n, _) => return Err(format!("`{}`: {} matches", sel, n)),
        };
        return Ok(Found::Fn {
            start: fn_start(Some(&f.vis), &f.sig),
            sig: &f.sig,
            block: Some(&f.block),
            end: br(f.block.span()).1,
            attrs: &f.attrs,
            pub_vis: match &f.vis { syn::Visibility::Public(p) => Some(br(p.span)), _ => None },
        });
    }
    Err(format!("bad selector `{}`", sel))
}

// ---------------------------------------------------------------- body visitor

#[derive(Default)]
struct Collect {
    loops: Vec<(String, usize, Option<usize>)>, // kind, body `{` offset, for-expr start
    stmts: Vec<(usize, usize, bool)>,            // start, end(incl. semi), is_tail_expr
    closures: Vec<ClosureInfo>,
    binops: Vec<(usize, usize, usize, usize, String)>, // lhs start, op start, op end, rhs end, fn path
    unops: Vec<(usize, usize, usize, String)>,         // op start, op end, operand end
    macros: Vec<(usize, usize, String, String)>,       // start, end, name, tokens text
    indexes: Vec<(usize, usize, usize, usize, bool)>,  // base start, base end, idx start(after [), whole end, idx is array literal
    index_assigns: Vec<(usize, usize, usize, usize, usize, usize)>, // base s, base e, idx s, idx e, rhs s, rhs e
    float_lits: Vec<(usize, usize, String)>,
    casts: Vec<(usize, usize, usize, String)>, // expr start, expr end, whole end, type text
    blocks_open: Vec<usize>,
    enum_loops: Vec<EnumLoop>,
    plain_loops: Vec<(usize, usize, usize, usize, usize, usize)>, // for_start, pat_start, pat_end, expr_start, expr_end, body_open_end
    path_loops: Vec<(usize, usize, usize, usize, usize, usize)>, // same, for `for x in VARIABLE`
    rev_loops: Vec<(usize, usize, usize, usize, usize, usize, usize, usize, usize)>, // for_start, pat_start, pat_end, expr_end, lo_start, lo_end, hi_start, hi_end, body_open_end
    compound: Vec<(usize, usize, usize, usize, usize, String)>,
    compound_idx: Vec<(usize, usize, usize, usize, usize, usize, String, usize, usize, usize)>, // base start/end, index start/end, rhs start/end, op path, left end, op start/end
    rename_from: String,
    rename_hits: Vec<(usize, usize, bool)>, // start, end, is_shorthand_field
}

#[derive(Clone)]
struct EnumLoop {
    for_start: usize,
    pat_start: usize,
    pat_end: usize,
    i_text: String,
    x_text: String,
    expr_start: usize,
    expr_end: usize,
    recv_end: usize,        // end of the receiver of `.enumerate()`
    simple_vec: Option<String>, // Some(V) when the receiver is `V.iter()` with V a path / field expression
    body_open_end: usize,
}

struct ClosureInfo {
    params: Vec<(usize, usize, bool, bool)>, // start, end offset of each param pattern, already typed?, is plain ident
    or2_end: usize,
    has_ret: bool,
    body_start: usize,
    body_end: usize,
    body_is_block: bool,
}

/// R14 translation of a boolean closure body into a spec expression
fn auto_spec(e: &syn::Expr, map: &[(String, String)]) -> Result<String, String> {
    use quote::ToTokens;
    match e {
        syn::Expr::Paren(p) => Ok(format!("({})", auto_spec(&p.expr, map)?)),
        syn::Expr::Group(g) => auto_spec(&g.expr, map),
        syn::Expr::Block(b) if b.block.stmts.len() == 1 => match &b.block.stmts[0] {
            syn::Stmt::Expr(x, None) => auto_spec(x, map),
            _ => Err("block body is not a single expression".into()),
        },
        syn::Expr::Unary(u) if matches!(u.op, syn::UnOp::Not(_)) => Ok(format!("!({})", auto_spec(&u.expr, map)?)),
        syn::Expr::Binary(b) => {
            let op = match b.op {
                syn::BinOp::And(_) => "&&",
                syn::BinOp::Or(_) => "||",
                syn::BinOp::Eq(_) => "==",
                syn::BinOp::Ne(_) => "!=",
                _ => return Err("operator outside { !, &&, ||, ==, != }".into()),
            };
            Ok(format!("({} {} {})", auto_spec(&b.left, map)?, op, auto_spec(&b.right, map)?))
        }
        syn::Expr::Lit(l) if matches!(l.lit, syn::Lit::Bool(_)) => Ok(l.to_token_stream().to_string()),
        syn::Expr::Path(p) => Ok(p.to_token_stream().to_string()),
        syn::Expr::MethodCall(m) => {
            let name = m.method.to_string();
            let tpl = map.iter().find(|(k, _)| *k == name).map(|(_, v)| v.clone()).ok_or(format!("method `{}` has no declared spec twin", name))?;
            if m.args.len() != 1 {
                return Err(format!("method `{}`: expected one argument", name));
            }
            let simple = |x: &syn::Expr| matches!(x, syn::Expr::Path(_) | syn::Expr::Field(_));
            if !simple(&m.receiver) || !simple(&m.args[0]) {
                return Err(format!("method `{}`: receiver / argument is not a plain variable or field", name));
            }
            let recv = m.receiver.to_token_stream().to_string().replace(' ', "");
            let arg = m.args[0].to_token_stream().to_string().replace(' ', "");
            Ok(tpl.replace("{recv}", &recv).replace("{arg}", &arg))
        }
        _ => Err("expression form outside the R14 subset".into()),
    }
}

fn binop_path(op: &syn::BinOp) -> Option<&'static str> {
    Some(match op {
        syn::BinOp::Add(_) => "::core::ops::Add::add",
        syn::BinOp::Sub(_) => "::core::ops::Sub::sub",
        syn::BinOp::Mul(_) => "::core::ops::Mul::mul",
        syn::BinOp::Div(_) => "::core::ops::Div::div",
        syn::BinOp::Rem(_) => "::core::ops::Rem::rem",
        _ => return None,
    })
}

impl<'ast> Visit<'ast> for Collect {
    fn visit_expr_while(&mut self, e: &'ast syn::ExprWhile) {
        self.loops.push(("while".into(), br(e.body.brace_token.span.open()).0, None));
        syn::visit::visit_expr_while(self, e);
    }
    fn visit_expr_for_loop(&mut self, e: &'ast syn::ExprForLoop) {
        self.loops.push(("for".into(), br(e.body.brace_token.span.open()).0, Some(br(e.expr.span()).0)));
        let mut is_rev_range = false;
        if let (syn::Pat::Ident(_), syn::Expr::MethodCall(mc)) = (&*e.pat, &*e.expr) {
            if mc.method == "rev" && mc.args.is_empty() {
                if let syn::Expr::Paren(pe) = &*mc.receiver {
                    if let syn::Expr::Range(r) = &*pe.expr {
                        if let (Some(lo), Some(hi), syn::RangeLimits::HalfOpen(_)) = (&r.start, &r.end, &r.limits) {
                            let (ps, pe_) = br(e.pat.span());
                            let (ls, le) = br(lo.span());
                            let (hs, he) = br(hi.span());
                            self.rev_loops.push((br(e.for_token.span).0, ps, pe_, br(e.expr.span()).1, ls, le, hs, he, br(e.body.brace_token.span.open()).1));
                            is_rev_range = true;
                        }
                    }
                }
            }
        }
        if let (syn::Pat::Ident(_), syn::Expr::Path(_)) = (&*e.pat, &*e.expr) {
            let (ps, pe) = br(e.pat.span());
            let (es, ee) = br(e.expr.span());
            self.path_loops.push((br(e.for_token.span).0, ps, pe, es, ee, br(e.body.brace_token.span.open()).1));
        }
        if let (syn::Pat::Ident(_), syn::Expr::MethodCall(mc)) = (&*e.pat, &*e.expr) {
            if mc.method != "enumerate" && !is_rev_range {
                let (ps, pe) = br(e.pat.span());
                let (es, ee) = br(e.expr.span());
                self.plain_loops.push((br(e.for_token.span).0, ps, pe, es, ee, br(e.body.brace_token.span.open()).1));
            }
        }
        if let (syn::Pat::Tuple(pt), syn::Expr::MethodCall(mc)) = (&*e.pat, &*e.expr) {
            if pt.elems.len() == 2 && mc.method == "enumerate" && mc.args.is_empty() {
                let (ps, pe) = br(e.pat.span());
                let (es, ee) = br(e.expr.span());
                let src_of = |sp: Span| -> (usize, usize) { br(sp) };
                let (is_, ie) = src_of(pt.elems[0].span());
                let (xs, xe) = src_of(pt.elems[1].span());
                let mut simple = None;
                if let syn::Expr::MethodCall(inner) = &*mc.receiver {
                    if inner.method == "iter" && inner.args.is_empty() {
                        if matches!(&*inner.receiver, syn::Expr::Path(_) | syn::Expr::Field(_)) {
                            let (vs, ve) = br(inner.receiver.span());
                            simple = Some((vs, ve));
                        }
                    }
                }
                self.enum_loops.push(EnumLoop {
                    for_start: br(e.for_token.span).0,
                    pat_start: ps,
                    pat_end: pe,
                    i_text: format!("{}:{}", is_, ie),
                    x_text: format!("{}:{}", xs, xe),
                    expr_start: es,
                    expr_end: ee,
                    recv_end: br(mc.receiver.span()).1,
                    simple_vec: simple.map(|(a, b)| format!("{}:{}", a, b)),
                    body_open_end: br(e.body.brace_token.span.open()).1,
                });
            }
        }
        syn::visit::visit_expr_for_loop(self, e);
    }
    fn visit_expr_loop(&mut self, e: &'ast syn::ExprLoop) {
        self.loops.push(("loop".into(), br(e.body.brace_token.span.open()).0, None));
        syn::visit::visit_expr_loop(self, e);
    }
    fn visit_block(&mut self, b: &'ast syn::Block) {
        self.blocks_open.push(br(b.brace_token.span.open()).1);
        let n = b.stmts.len();
        for (i, s) in b.stmts.iter().enumerate() {
            let (start, mut end) = br(s.span());
            let mut tail = false;
            match s {
                syn::Stmt::Local(l) => end = br(l.semi_token.span).1,
                syn::Stmt::Expr(_, Some(semi)) => end = br(semi.span).1,
                syn::Stmt::Expr(e, None) => {
                    // block-like expressions (if/while/match/for) in statement position are not tails
                    let blocklike = matches!(
                        e,
                        syn::Expr::If(_) | syn::Expr::While(_) | syn::Expr::ForLoop(_) | syn::Expr::Loop(_) | syn::Expr::Match(_) | syn::Expr::Block(_)
                    );
                    tail = i + 1 == n && !blocklike || (i + 1 == n);
                    if i + 1 < n {
                        tail = false;
                    }
                }
                syn::Stmt::Macro(m) => {
                    if let Some(semi) = &m.semi_token {
                        end = br(semi.span).1
                    }
                }
                syn::Stmt::Item(_) => {}
            }
            self.stmts.push((start, end, tail));
        }
        syn::visit::visit_block(self, b);
    }
    fn visit_arm(&mut self, a: &'ast syn::Arm) {
        if !matches!(*a.body, syn::Expr::Block(_)) {
            let (s, e) = br(a.body.span());
            self.stmts.push((s, e, true));
        }
        syn::visit::visit_arm(self, a);
    }
    fn visit_expr_closure(&mut self, c: &'ast syn::ExprClosure) {
        let params = c
            .inputs
            .iter()
            .map(|p| (br(p.span()).0, br(p.span()).1, matches!(p, syn::Pat::Type(_)), matches!(p, syn::Pat::Ident(_))))
            .collect();
        let (bs, be) = br(c.body.span());
        if !matches!(*c.body, syn::Expr::Block(_)) {
            // an expression-bodied closure: its body can carry an `after` anchor (R12 names it)
            self.stmts.push((bs, be, true));
        }
        self.closures.push(ClosureInfo {
            params,
            or2_end: br(c.or2_token.span).1,
            has_ret: !matches!(c.output, syn::ReturnType::Default),
            body_start: bs,
            body_end: be,
            body_is_block: matches!(*c.body, syn::Expr::Block(_)),
        });
        syn::visit::visit_expr_closure(self, c);
    }
    fn visit_expr_binary(&mut self, e: &'ast syn::ExprBinary) {
        let comp = match &e.op {
            syn::BinOp::AddAssign(_) => Some("::core::ops::Add::add"),
            syn::BinOp::SubAssign(_) => Some("::core::ops::Sub::sub"),
            syn::BinOp::MulAssign(_) => Some("::core::ops::Mul::mul"),
            syn::BinOp::DivAssign(_) => Some("::core::ops::Div::div"),
            syn::BinOp::RemAssign(_) => Some("::core::ops::Rem::rem"),
            _ => None,
        };
        if let Some(p) = comp {
            if let syn::Expr::Index(ix) = &*e.left {
                // `a[idx] op= r`: kept apart so that the index rule can turn it into vx_set(idx, op(vx_get(idx), r))
                let (bs, be) = br(ix.expr.span());
                let (is_, ie) = br(ix.index.span());
                let (rs, re) = br(e.right.span());
                let (_, le) = br(e.left.span());
                let (os, oe) = br(e.op.span());
                self.compound_idx.push((bs, be, is_, ie, rs, re, p.to_string(), le, os, oe));
                self.visit_expr(&ix.expr);
                self.visit_expr(&ix.index);
                self.visit_expr(&e.right);
                return;
            }
            let (ls, le) = br(e.left.span());
            let (os, oe) = br(e.op.span());
            let (_, re) = br(e.right.span());
            self.compound.push((ls, le, os, oe, re, p.to_string()));
        }
        if let Some(p) = binop_path(&e.op) {
            let (ls, _) = br(e.left.span());
            let (os, oe) = br(e.op.span());
            let (_, re) = br(e.right.span());
            self.binops.push((ls, os, oe, re, p.to_string()));
        }
        syn::visit::visit_expr_binary(self, e);
    }
    fn visit_expr_unary(&mut self, e: &'ast syn::ExprUnary) {
        if let syn::UnOp::Neg(t) = &e.op {
            let (os, oe) = br(t.span);
            let (_, ee) = br(e.expr.span());
            self.unops.push((os, oe, ee, "::core::ops::Neg::neg".into()));
        }
        syn::visit::visit_expr_unary(self, e);
    }
    fn visit_macro(&mut self, m: &'ast syn::Macro) {
        let (s, _) = br(m.path.span());
        let e = br(m.delimiter.span().close()).1;
        let name = m.path.segments.last().map(|s| s.ident.to_string()).unwrap_or_default();
        self.macros.push((s, e, name, m.tokens.to_string()));
        // try to visit the macro arguments as expressions so that nested rewrites apply
        syn::visit::visit_macro(self, m);
    }
    fn visit_expr_index(&mut self, e: &'ast syn::ExprIndex) {
        let (bs, be) = br(e.expr.span());
        let (is_, _ie) = br(e.index.span());
        let (_, we) = br(e.span());
        let arr = matches!(*e.index, syn::Expr::Array(_));
        self.indexes.push((bs, be, is_, we, arr));
        syn::visit::visit_expr_index(self, e);
    }
    fn visit_expr_assign(&mut self, e: &'ast syn::ExprAssign) {
        if let syn::Expr::Index(ix) = &*e.left {
            let (bs, be) = br(ix.expr.span());
            let (is_, ie) = br(ix.index.span());
            let (rs, re) = br(e.right.span());
            self.index_assigns.push((bs, be, is_, ie, rs, re));
            // do not visit the left index expression as a read
            self.visit_expr(&ix.expr);
            self.visit_expr(&ix.index);
            self.visit_expr(&e.right);
            return;
        }
        syn::visit::visit_expr_assign(self, e);
    }
    fn visit_lit_float(&mut self, l: &'ast syn::LitFloat) {
        let (s, e) = br(l.span());
        self.float_lits.push((s, e, l.to_string()));
    }
    fn visit_pat_ident(&mut self, p: &'ast syn::PatIdent) {
        if !self.rename_from.is_empty() && p.ident == self.rename_from {
            let (s, e) = br(p.ident.span());
            self.rename_hits.push((s, e, false));
        }
        syn::visit::visit_pat_ident(self, p);
    }
    fn visit_expr_path(&mut self, p: &'ast syn::ExprPath) {
        if !self.rename_from.is_empty() && p.qself.is_none() && p.path.segments.len() == 1 && p.path.segments[0].ident == self.rename_from {
            let (s, e) = br(p.path.segments[0].ident.span());
            self.rename_hits.push((s, e, false));
        }
        syn::visit::visit_expr_path(self, p);
    }
    fn visit_field_value(&mut self, f: &'ast syn::FieldValue) {
        if f.colon_token.is_none() {
            if let syn::Member::Named(id) = &f.member {
                if !self.rename_from.is_empty() && *id == self.rename_from {
                    let (s, e) = br(id.span());
                    self.rename_hits.push((s, e, true));
                    return; // the shorthand's expression is the same token
                }
            }
        }
        syn::visit::visit_field_value(self, f);
    }
    fn visit_lit_int(&mut self, l: &'ast syn::LitInt) {
        if l.suffix() == "f64" || l.suffix() == "f32" {
            let (s, e) = br(l.span());
            self.float_lits.push((s, e, l.to_string()));
        }
    }
    fn visit_expr_cast(&mut self, e: &'ast syn::ExprCast) {
        let (es, ee) = br(e.expr.span());
        let (_, we) = br(e.span());
        let (ts, te) = br(e.ty.span());
        let _ = ts;
        let _ = te;
        self.casts.push((es, ee, we, e.ty.to_token_stream_string()));
        syn::visit::visit_expr_cast(self, e);
    }
}

trait TyStr {
    fn to_token_stream_string(&self) -> String;
}
impl TyStr for Box<syn::Type> {
    fn to_token_stream_string(&self) -> String {
        use quote::ToTokens;
        self.to_token_stream().to_string()
    }
}

fn float_lit_to_ratio(s: &str) -> Option<(String, String)> {
    // "0.5_f64", "1.0", "2f64", "1e-3"
    let t = s.trim_end_matches("f64").trim_end_matches("f32").trim_end_matches('_');
    let t = t.replace('_', "");
    let (mant, exp) = match t.find(|c| c == 'e' || c == 'E') {
        Some(i) => (&t[..i], t[i + 1..].parse::<i32>().ok()?),
        None => (&t[..], 0),
    };
    let (ip, fp) = match mant.split_once('.') {
        Some((a, b)) => (a, b),
        None => (mant, ""),
    };
    let mut num = format!("{}{}", ip, fp).trim_start_matches('0').to_string();
    if num.is_empty() {
        num = "0".into();
    }
    let mut den_pow = fp.len() as i32 - exp;
    while den_pow < 0 {
        num.push('0');
        den_pow += 1;
    }
    let den = format!("1{}", "0".repeat(den_pow as usize));
    Some((num, den))
}

// ---------------------------------------------------------------- token-level substitution

fn flat_tokens(ts: TokenStream, out: &mut Vec<(String, usize, usize)>) {
    for tt in ts {
        match tt {
            TokenTree::Group(g) => {
                let (open, close) = match g.delimiter() {
                    Delimiter::Parenthesis => ("(", ")"),
                    Delimiter::Brace => ("{", "}"),
                    Delimiter::Bracket => ("[", "]"),
                    Delimiter::None => ("", ""),
                };
                let (os, oe) = br(g.span_open());
                out.push((open.to_string(), os, oe));
                flat_tokens(g.stream(), out);
                let (cs, ce) = br(g.span_close());
                out.push((close.to_string(), cs, ce));
            }
            TokenTree::Ident(i) => {
                let (s, e) = br(i.span());
                out.push((i.to_string(), s, e));
            }
            TokenTree::Punct(p) => {
                let (s, e) = br(p.span());
                out.push((p.as_char().to_string(), s, e));
            }
            TokenTree::Literal(l) => {
                let (s, e) = br(l.span());
                out.push((l.to_string(), s, e));
            }
        }
    }
}

fn pattern_tokens(p: &str) -> Result<Vec<String>, String> {
    let ts: TokenStream = p.parse().map_err(|e| format!("bad subst pattern `{}`: {}", p, e))?;
    let mut v = Vec::new();
    flat_tokens(ts, &mut v);
    Ok(v.into_iter().map(|t| t.0).collect())
}

// ---------------------------------------------------------------- main per-item processing

fn process_item(repo: &str, req: &Value, cache: &mut BTreeMap<String, (String, syn::File)>) -> Result<Value, String> {
    let file = req["file"].as_str().ok_or("missing file")?;
    let sel = req["sel"].as_str().ok_or("missing sel")?;
    if !cache.contains_key(file) {
        let path = format!("{}/{}", repo, file);
        let src = std::fs::read_to_string(&path).map_err(|e| format!("{}: {}", path, e))?;
        let ast = syn::parse_file(&src).map_err(|e| format!("{}: parse error: {}", path, e))?;
        cache.insert(file.to_string(), (src, ast));
    }
    // NOTE: proc_macro2 byte ranges are relative to the *source map*, which concatenates files;
    // re-parse per item so that offsets are relative to this file only.
    let src = cache.get(file).unwrap().0.clone();
    let ast = syn::parse_file(&src).map_err(|e| format!("parse error: {}", e))?;
    let base = {
        // offset of this parse in the global source map: byte_range of the first item minus its position in text
        // (proc_macro2 returns file-relative ranges, so base is 0; kept for safety check below)
        0usize
    };
    let _ = base;

    collect_macro_rules(&ast.items, false);
    let found0 = find_item(&src, &ast.items, sel)?;
    // R4 pre-pass (function items only): expand single-arm macro_rules! invocations, then re-parse the expanded text
    let mut r4_count = 0u64;
    let mut orig_lines: Option<(usize, usize)> = None;
    let (src, ast, sel_owned): (String, syn::File, String) = match &found0 {
        Found::Fn { start, end, sig, .. } => {
            match expand_r4(&src[*start..*end])? {
                Some((expanded, n)) => {
                    r4_count = n;
                    let line0 = src[..*start].bytes().filter(|b| *b == b'\n').count();
                    let line1 = src[..*end].bytes().filter(|b| *b == b'\n').count();
                    orig_lines = Some((line0 + 1, line1 + 1));
                    let synthetic = format!("{}impl __VX {{ {} }}", "\n".repeat(line0), expanded);
                    let ast2 = syn::parse_file(&synthetic).map_err(|e| format!("R4: expanded text does not parse: {}", e))?;
                    let name = sig.ident.to_string();
                    (synthetic, ast2, format!("impl __VX :: fn {}", name))
                }
                None => (src.clone(), ast, sel.to_string()),
            }
        }
        _ => (src.clone(), ast, sel.to_string()),
    };
    let found = find_item(&src, &ast.items, &sel_owned)?;
    let mut cx = Ctx { src: &src, edits: Vec::new(), seq: 0, rules: BTreeMap::new() };
    for _ in 0..r4_count {
        cx.count("R4(single-arm macro_rules! invocation expanded by substitution; rules then applied to the expanded text)");
    }
    let _ = orig_lines;

    let ret_name = req["ret"].as_str().unwrap_or("r");
    let sig_frag = req["sig"].as_str().unwrap_or("");
    check_clause_fragment(sig_frag, &["requires", "ensures", "decreases", "recommends", "returns", "no_unwind", "opens_invariants"])?;

    let parsed_mac: OpClosure;
    let (region_start, region_end, block, dropped_attrs): (usize, usize, Option<&syn::Block>, Vec<String>);
    let mut fn_name = String::new();
    match &found {
        Found::Fn { start, sig, block: b, end, attrs, pub_vis } => {
            if let (Some((vs, ve)), true) = (pub_vis, req["vis_crate"].as_bool().unwrap_or(false)) {
                cx.rep(*vs, *ve, "pub(crate)");
                cx.count("VIS(`pub fn` -> `pub(crate) fn`)");
            }
            region_start = *start;
            region_end = *end;
            block = *b;
            fn_name = sig.ident.to_string();
            dropped_attrs = attrs
                .iter()
                .filter(|a| !a.path().is_ident("doc"))
                .map(|a| {
                    let (s, e) = br(a.span());
                    norm(&src[s..e])
                })
                .collect();
            // sanity: span offsets must index this file
            let (s, e) = br(sig.ident.span());
            if src.get(s..e) != Some(fn_name.as_str()) {
                return Err("internal: span offsets do not index the file text".into());
            }
            if let Some(newname) = req["rename"].as_str() {
                fn_name = newname.to_string();
                cx.rep(s, e, newname);
                cx.count("RN(rename fn)");
            }
            // return type naming
            if let syn::ReturnType::Type(_, ty) = &sig.output {
                let is_never = matches!(**ty, syn::Type::Never(_));
                if !is_never {
                    let (ts, te) = br(ty.span());
                    cx.ins(ts, &format!("({}: ", ret_name), true);
                    cx.ins(te, ")", true);
                }
            }
            // where clause sits between the return type and the body: keep; contract goes before `{` / `;`
            let sig_pos = match b {
                Some(b) => br(b.brace_token.span.open()).0,
                None => *end - 1,
            };
            if !sig_frag.trim().is_empty() {
                cx.ins(sig_pos, &format!("\n{}\n", sig_frag.trim_end()), true);
            }
        }
        Found::Mac { mac } => {
            parsed_mac = syn::parse2::<OpClosure>(mac.tokens.clone()).map_err(|e| format!("macro body parse: {}", e))?;
            let name = req["rename"].as_str().ok_or("macro items need `rename`")?;
            fn_name = name.to_string();
            let (p1s, p1e) = br(parsed_mac.pipe1);
            let (p2s, p2e) = br(parsed_mac.pipe2);
            region_start = p1s;
            region_end = br(parsed_mac.block.span()).1;
            cx.rep(p1s, p1e, &format!("fn {}(", name));
            cx.rep(p2s, p2e, ")");
            cx.count("R3(auto_ops closure -> fn)");
            let (ts, te) = br(parsed_mac.ret.span());
            cx.ins(ts, &format!("({}: ", ret_name), true);
            cx.ins(te, ")", true);
            let sig_pos = br(parsed_mac.block.brace_token.span.open()).0;
            if !sig_frag.trim().is_empty() {
                cx.ins(sig_pos, &format!("\n{}\n", sig_frag.trim_end()), true);
            }
            dropped_attrs = vec![format!("macro {}! op `{}` {} inputs", mac.path.segments.last().unwrap().ident, parsed_mac.op, parsed_mac.n_inputs)];
            // keep a reference alive
            block = None;
            // handled below through parsed_mac
            let b: &syn::Block = &parsed_mac.block;
            return finish(req, cx, &src, file, sel, &fn_name, region_start, region_end, Some(b), dropped_attrs, None);
        }
    }
    let sig_opt = match &found { Found::Fn { sig, .. } => Some(*sig), _ => None };
    finish(req, cx, &src, file, sel, &fn_name, region_start, region_end, block, dropped_attrs, sig_opt)
}

#[allow(clippy::too_many_arguments)]
fn finish(
    req: &Value,
    mut cx: Ctx,
    src: &str,
    file: &str,
    sel: &str,
    fn_name: &str,
    region_start: usize,
    region_end: usize,
    block: Option<&syn::Block>,
    dropped_attrs: Vec<String>,
    sig: Option<&syn::Signature>,
) -> Result<Value, String> {
    let mut col = Collect::default();
    if let Some(rv) = req["rename_var"].as_array() {
        col.rename_from = rv[0].as_str().unwrap_or("").to_string();
    }
    if let Some(sg) = sig {
        for inp in &sg.inputs {
            if let syn::FnArg::Typed(pt) = inp {
                col.visit_pat(&pt.pat);
            }
        }
    }
    if let Some(b) = block {
        col.visit_block(b);
    }
    if let Some(rv) = req["rename_var"].as_array() {
        let to = rv[1].as_str().unwrap_or("");
        let hits = col.rename_hits.clone();
        for (s_, e_, shorthand) in hits {
            if shorthand {
                cx.rep(s_, e_, &format!("{}: {}", col.rename_from, to));
            } else {
                cx.rep(s_, e_, to);
            }
            cx.count(&format!("RV(variable `{}` -> `{}`: name clashes with a Verus keyword)", col.rename_from, to));
        }
    }

    // ---- rewrite rules
    let ufcs = req["ufcs"].as_bool().unwrap_or(false);
    {
        // compound assignments to index expressions that are NOT under the index rule are ordinary compound assignments
        let names: Vec<String> = req["index_rewrite"].as_array().map(|a| a.iter().filter_map(|v| v.as_str().map(norm)).collect()).unwrap_or_default();
        let all2d = names.iter().any(|n| n == "[[*]]");
        let mut extra = Vec::new();
        for (bs, be, is_, ie, _rs, re, path, le, os, oe) in &col.compound_idx {
            let base = norm(&src[*bs..*be]);
            let idx_txt = &src[*is_..*ie];
            if !(names.contains(&base) || (all2d && idx_txt.trim_start().starts_with('['))) {
                extra.push((*bs, *le, *os, *oe, *re, path.clone()));
            }
        }
        col.compound.extend(extra);
    }
    if ufcs {
        for (ls, os, oe, re, path) in &col.binops {
            cx.ins(*ls, &format!("{}(", path), false);
            cx.rep(*os, *oe, ",");
            cx.ins(*re, ")", false);
            cx.count("R1(binary operator -> UFCS)");
        }
        for (ls, le, os, oe, re, path) in &col.compound {
            // `l op= r`  ->  `l = Op::op(l, r)`   (R1 for compound assignment)
            let ltxt = src[*ls..*le].to_string();
            cx.rep(*os, *oe, &format!("= {}({},", path, ltxt));
            cx.ins(*re, ")", false);
            cx.count("R1(compound assignment `l op= r` -> `l = Op::op(l, r)`)");
        }
        for (os, oe, ee, path) in &col.unops {
            cx.rep(*os, *oe, &format!("{}(", path));
            cx.ins(*ee, ")", false);
            cx.count("R1(unary neg -> UFCS)");
        }
    }
    if !ufcs && req["compound"].as_bool().unwrap_or(false) {
        for (ls, le, os, oe, re, path) in &col.compound {
            // `l op= r`  ->  `l = l op (r)`
            let ltxt = src[*ls..*le].to_string();
            let op = match path.rsplit("::").next().unwrap_or("") { "add" => "+", "sub" => "-", "mul" => "*", "div" => "/", _ => "%" };
            cx.rep(*os, *oe, &format!("= {} {} (", ltxt, op));
            cx.ins(*re, ")", false);
            cx.count("R1(compound assignment `l op= r` -> `l = l op (r)`)");
        }
    }
    // float literals
    if req["float_lits"].as_bool().unwrap_or(false) {
        for (s, e, txt) in &col.float_lits {
            let (n, d) = float_lit_to_ratio(txt).ok_or(format!("cannot convert float literal {}", txt))?;
            cx.rep(*s, *e, &format!("R64::lit({}, {})", n, d));
            cx.count("R6(float literal -> exact rational R64)");
        }
    }
    // casts `e as f64`
    if req["float_casts"].as_bool().unwrap_or(false) {
        for (es, _ee, we, ty) in &col.casts {
            if ty.trim() == "f64" {
                cx.ins(*es, "vx_as_f64(", false);
                // replace ` as f64` by `)`
                let ee = *_ee;
                cx.rep(ee, *we, ")");
                cx.count("R6(`as f64` -> vx_as_f64)");
            }
        }
    }
    // panics and friends
    let r8 = req["r8"].as_bool().unwrap_or(true);
    if r8 {
        for (s, e, name, toks) in &col.macros {
            match name.as_str() {
                "panic" | "unreachable" | "unimplemented" | "todo" => {
                    if req["refuse"].as_bool().unwrap_or(false) {
                        // R8': in the "refusal" copy a panic! is a diverging call without precondition
                        cx.rep(*s, *e, "vx_refuse()");
                        cx.count("R8'(panic! -> vx_refuse(), diverging, no precondition)");
                    } else {
                        cx.rep(*s, *e, "vx_panic()");
                        cx.count("R8(panic!/unreachable! -> vx_panic())");
                    }
                }
                "assert" => {
                    let first = split_top_commas(toks);
                    cx.rep(*s, *e, &format!("vx_assert({})", first[0]));
                    cx.count("R8(assert! -> vx_assert)");
                }
                "assert_eq" => {
                    let a = split_top_commas(toks);
                    if a.len() < 2 {
                        return Err("assert_eq! with <2 args".into());
                    }
                    cx.rep(*s, *e, &format!("vx_assert({} == {})", a[0], a[1]));
                    cx.count("R8(assert_eq! -> vx_assert)");
                }
                "format" => {
                    cx.rep(*s, *e, "vx_format()");
                    cx.count("R9(format! -> vx_format())");
                }
                _ => {}
            }
        }
    }
    // ndarray indexing
    if let Some(names) = req["index_rewrite"].as_array() {
        let names: Vec<String> = names.iter().filter_map(|v| v.as_str().map(norm)).collect();
        let all2d = names.iter().any(|n| n == "[[*]]");
        for (bs, be, is_, ie, rs, re) in &col.index_assigns {
            let base = norm(&src[*bs..*be]);
            let idx_txt = &src[*is_..*ie];
            if names.contains(&base) || (all2d && idx_txt.trim_start().starts_with('[')) {
                if req["hoist"].as_bool().unwrap_or(false) {
                    // a[idx] = rhs   ->   { let vx_v = rhs; a.vx_set(idx, vx_v) }   (Rust evaluates the right-hand side before the
                    // indexed place, so this is the language's own order; needed when `a` is a `&mut` parameter read inside rhs)
                    let base_txt = src[*bs..*be].to_string();
                    let idx_txt = src[*is_..*ie].to_string();
                    cx.rep(*bs, *rs, "{ let vx_v = ");
                    cx.ins(*re, &format!("; {}.vx_set({}, vx_v) }}", base_txt, idx_txt), false);
                    cx.count("R2(index assignment -> { let v = rhs; vx_set(idx, v) })");
                } else {
                // a[idx] = rhs   ->   a.vx_set(idx, rhs)
                cx.rep(*be, *is_, ".vx_set(");
                cx.rep(*ie, *rs, ", ");
                cx.ins(*re, ")", false);
                cx.count("R2(index assignment -> vx_set)");
                }
            }
        }
        for (bs, be, is_, ie, rs, re, path, _le, _os, _oe) in &col.compound_idx {
            let base = norm(&src[*bs..*be]);
            let idx_txt = &src[*is_..*ie];
            if names.contains(&base) || (all2d && idx_txt.trim_start().starts_with('[')) {
                // a[idx] op= rhs   ->   a.vx_set(idx, Op::op((*a.vx_get(idx)), rhs))   /   a.vx_set(idx, (*a.vx_get(idx)) op (rhs))
                cx.rep(*be, *is_, ".vx_set(");
                if ufcs {
                    cx.rep(*ie, *rs, &format!(", {}((*{}.vx_get({})), ", path, &src[*bs..*be], idx_txt));
                    cx.ins(*re, "))", false);
                } else {
                    let op = match path.rsplit("::").next().unwrap_or("") { "add" => "+", "sub" => "-", "mul" => "*", "div" => "/", _ => "%" };
                    cx.rep(*ie, *rs, &format!(", (*{}.vx_get({})) {} (", &src[*bs..*be], idx_txt, op));
                    cx.ins(*re, "))", false);
                }
                cx.count("R2(index compound assignment -> vx_set(idx, op(vx_get(idx), rhs)))");
            }
        }
        for (bs, be, is_, we, arr) in &col.indexes {
            let base = norm(&src[*bs..*be]);
            if col.index_assigns.iter().any(|a| a.0 == *bs && a.1 == *be && a.2 == *is_) {
                continue;
            }
            if names.contains(&base) || (all2d && *arr) {
                cx.ins(*bs, "(*", false);
                cx.rep(*be, *is_, ".vx_get(");
                cx.rep(*we - 1, *we, "))");
                cx.count("R2(index read -> vx_get)");
            }
        }
    }
    // R10: `for (i, x) in E.enumerate()` -> index loop (Verus has no spec for Enumerate)
    if req["r10"].as_bool().unwrap_or(false) {
        let rng = |t: &str| -> (usize, usize) {
            let (a, b) = t.split_once(':').unwrap();
            (a.parse().unwrap(), b.parse().unwrap())
        };
        for (k, el) in col.enum_loops.iter().enumerate() {
            let (is_, ie) = rng(&el.i_text);
            let (xs, xe) = rng(&el.x_text);
            let i_txt = src[is_..ie].to_string();
            let x_txt = src[xs..xe].to_string();
            match &el.simple_vec {
                Some(v) => {
                    let (vs, ve) = rng(v);
                    let v_txt = src[vs..ve].to_string();
                    cx.rep(el.pat_start, el.pat_end, &i_txt);
                    cx.rep(el.expr_start, el.expr_end, &format!("0..{}.len()", v_txt));
                    cx.ins(el.body_open_end, &format!(" let {} = &{}[{}];", x_txt, v_txt, i_txt), false);
                    cx.count("R10a(for (i, x) in V.iter().enumerate() -> for i in 0..V.len() { let x = &V[i]; .. })");
                }
                None => {
                    cx.rep(el.for_start, el.expr_start, &format!("let vx_items_{} = ", k));
                    cx.rep(el.recv_end, el.expr_end, &format!(".collect(); for {} in 0..vx_items_{}.len()", i_txt, k));
                    cx.ins(el.body_open_end, &format!(" let {} = vx_items_{}[{}];", x_txt, k, i_txt), false);
                    cx.count("R10b(for (i, x) in ITER.enumerate() -> let items = ITER.collect(); for i in 0..items.len() { let x = items[i]; .. })");
                }
            }
        }
    }
    // R10d: `for i in (A..B).rev()` -> `let mut vx_rev_k = B; while vx_rev_k > A { vx_rev_k = vx_rev_k - 1; let i = vx_rev_k; .. }`
    if req["r10d"].as_bool().unwrap_or(false) {
        for (k, (fs, ps, pe, ee, ls, le, hs, he, bo)) in col.rev_loops.iter().enumerate() {
            let x_txt = src[*ps..*pe].to_string();
            let lo = src[*ls..*le].to_string();
            let hi = src[*hs..*he].to_string();
            cx.rep(*fs, *ee, &format!("let mut vx_rev_{k} = {hi}; while vx_rev_{k} > {lo}", k = k, hi = hi, lo = lo));
            cx.ins_prio(*bo, &format!(" vx_rev_{k} = vx_rev_{k} - 1; let {x} = vx_rev_{k};", k = k, x = x_txt), false, -3);
            cx.count("R10d(for i in (A..B).rev() -> let mut r = B; while r > A { r = r - 1; let i = r; .. })");
        }
    }
    // R10c: `for x in ITER` over a method-call iterator -> collect + index loop
    if req["r10c"].as_bool().unwrap_or(false) {
        for (k, (fs, ps, pe, es, ee, bo)) in col.plain_loops.iter().enumerate() {
            let x_txt = src[*ps..*pe].to_string();
            let take = req["r10c_take"].as_bool().unwrap_or(false);
            cx.rep(*fs, *es, &format!("let {}vx_seq_{} = ", if take { "mut " } else { "" }, k));
            cx.ins(*ee, &format!(".collect(); let vx_n_{k} = vx_seq_{k}.len(); for vx_i_{k} in 0..vx_n_{k}", k = k), false);
            if take {
                // owned, non-Copy items: move the i-th item out (vx_take leaves the slot unspecified; it is never read again)
                cx.ins(*bo, &format!(" let {} = vx_take(&mut vx_seq_{}, vx_i_{});", x_txt, k, k), false);
            } else {
                cx.ins(*bo, &format!(" let {} = vx_seq_{}[vx_i_{}];", x_txt, k, k), false);
            }
            cx.count("R10c(for x in ITER -> let items = ITER.collect(); for i in 0..items.len() { let x = items[i]; .. })");
        }
    }
    // R10c'': `for x in V` over an owned collection variable -> index loop by reference (items are only read)
    if req["r10c"].as_bool().unwrap_or(false) {
        let base = col.plain_loops.len();
        for (k0, (fs, ps, pe, es, ee, bo)) in col.path_loops.iter().enumerate() {
            let k = base + k0;
            let x_txt = src[*ps..*pe].to_string();
            cx.rep(*fs, *es, &format!("let vx_seq_{} = ", k));
            cx.ins(*ee, &format!("; let vx_n_{k} = vx_seq_{k}.len(); for vx_i_{k} in 0..vx_n_{k}", k = k), false);
            cx.ins(*bo, &format!(" let {} = &vx_seq_{}[vx_i_{}];", x_txt, k, k), false);
            cx.count("R10c(for x in V -> let items = V; for i in 0..items.len() { let x = &items[i]; .. })");
        }
    }
    // explicit token substitutions
    if let Some(subs) = req["subst"].as_array() {
        let region_ts: TokenStream = src[region_start..region_end].parse().map_err(|e| format!("region tokenise: {}", e))?;
        let mut toks = Vec::new();
        flat_tokens(region_ts, &mut toks);
        // offsets from this fresh tokenisation are relative to the region text
        let first = toks.first().map(|t| t.1).unwrap_or(0);
        let lead = src[region_start..region_end].len() - src[region_start..region_end].trim_start().len();
        let shift = region_start as isize + lead as isize - first as isize;
        let mut taken: Vec<(usize, usize)> = cx.edits.iter().filter(|e| e.end > e.start).map(|e| (e.start, e.end)).collect();
        let mut subst_taken: Vec<(usize, usize)> = Vec::new();
        for s in subs {
            let old = s[0].as_str().ok_or("subst old")?;
            let new = s[1].as_str().ok_or("subst new")?;
            let pat = pattern_tokens(old)?;
            if pat.is_empty() {
                continue;
            }
            let mut i = 0;
            let mut n = 0;
            while i + pat.len() <= toks.len() {
                if (0..pat.len()).all(|k| toks[i + k].0 == pat[k]) {
                    let st = (toks[i].1 as isize + shift) as usize;
                    let en = (toks[i + pat.len() - 1].2 as isize + shift) as usize;
                    if taken.iter().any(|(a, b)| st < *b && *a < en) {
                        // overlaps earlier rewrites.  If every overlapping edit (rule rewrites such as R1/R2 inside the matched
                        // text) lies entirely inside the match, the substitution replaces the whole text and those edits are dropped;
                        // otherwise (partial overlap, e.g. an earlier substitution of this item) the match is skipped.
                        let inside = cx.edits.iter().filter(|e| st < e.end.max(e.start + 1) && e.start < en).all(|e| st <= e.start && e.end <= en)
                            && taken.iter().filter(|(a, b)| st < *b && *a < en).all(|(a, b)| st <= *a && *b <= en)
                            && !subst_taken.iter().any(|(a, b)| st < *b && *a < en);
                        if !inside {
                            i += 1;
                            continue;
                        }
                        cx.edits.retain(|e| !(st <= e.start && e.end <= en && (e.start < en)));
                        taken.retain(|(a, b)| !(st <= *a && *b <= en));
                    }
                    subst_taken.push((st, en));
                    taken.push((st, en));
                    cx.rep(st, en, new);
                    n += 1;
                    i += pat.len();
                } else {
                    i += 1;
                }
            }
            for _ in 0..n {
                cx.count(&format!("S(`{}` -> `{}`)", old, new));
            }
            if n == 0 && s.get(2).and_then(|v| v.as_bool()).unwrap_or(true) {
                return Err(format!("subst `{}` matched nothing in `{}`", old, sel));
            }
        }
    }

    // ---- contract splices
    if let Some(loops) = req["loops"].as_object() {
        for (k, v) in loops {
            let idx: usize = k.parse().map_err(|_| "loop key")?;
            let (kind, body_open, for_expr) = col.loops.get(idx).ok_or(format!("loop {} not found in `{}` ({} loops)", idx, sel, col.loops.len()))?.clone();
            let spec = v["spec"].as_str().unwrap_or("");
            check_clause_fragment(spec, &["invariant", "invariant_except_break", "ensures", "decreases"])?;
            if let Some(it) = v["iter"].as_str() {
                if kind != "for" {
                    return Err("iter name on non-for loop".into());
                }
                if !it.chars().all(|c| c.is_alphanumeric() || c == '_') {
                    return Err("bad iter name".into());
                }
                cx.ins(for_expr.unwrap(), &format!("{}: ", it), true);
            }
            cx.ins(body_open, &format!("\n{}\n", spec.trim_end()), true);
            if let Some(code) = v["body_start"].as_str() {
                check_ghost_fragment(code)?;
                cx.ins(body_open + 1, &format!("\n{}\n", code.trim_end()), true);
            }
        }
    }
    if let Some(anchors) = req["anchors"].as_array() {
        for a in anchors {
            let wh = a["where"].as_str().unwrap_or("before");
            let code = a["code"].as_str().unwrap_or("");
            check_ghost_fragment(code)?;
            if wh == "body_start" {
                let b = block.ok_or("no body")?;
                cx.ins(br(b.brace_token.span.open()).1, &format!("\n{}\n", code.trim_end()), true);
                continue;
            }
            let text = norm(a["text"].as_str().ok_or("anchor text")?);
            let nth = a["nth"].as_u64();
            let cands: Vec<&(usize, usize, bool)> = col.stmts.iter().filter(|(s, e, _)| norm(&src[*s..*e]).starts_with(&text)).collect();
            let pick = match (cands.len(), nth) {
                (1, None) => cands[0],
                (n, Some(k)) if (k as usize) < n => cands[k as usize],
                (n, _) => return Err(format!("anchor `{}` in `{}`: {} matches", text, sel, n)),
            };
            match wh {
                "before" => cx.ins(pick.0, &format!("{}\n", code.trim_end()), true),
                "after" => {
                    if pick.2 {
                        // R12: name the tail expression so that ghost code can follow it:  E  ->  { let vx_tail = E; <ghost> vx_tail }
                        cx.ins_prio(pick.0, "{ let vx_tail = ", false, -1);
                        cx.ins_prio(pick.1, &format!(";\n{}\nvx_tail }}", code.trim_end()), false, 1);
                        cx.count("R12(tail expression E -> { let vx_tail = E; <ghost code> vx_tail })");
                    } else {
                        cx.ins(pick.1, &format!("\n{}", code.trim_end()), true)
                    }
                }
                _ => return Err("anchor where".into()),
            }
        }
    }
    if let Some(cls) = req["closures"].as_object() {
        for (k, v) in cls {
            let idx: usize = k.parse().map_err(|_| "closure key")?;
            let c = col.closures.get(idx).ok_or(format!("closure {} not found in `{}` ({} closures)", idx, sel, col.closures.len()))?;
            let mut destructure = String::new();
            if let Some(tys) = v["params"].as_array() {
                if tys.len() != c.params.len() {
                    return Err(format!("closure {}: {} params, {} types", idx, c.params.len(), tys.len()));
                }
                for (pi, (t, (start, end, typed, is_ident))) in tys.iter().zip(c.params.iter()).enumerate() {
                    let t = t.as_str().unwrap_or("");
                    if t.is_empty() || *typed {
                        continue;
                    }
                    if depth0_has(t, &['{', '}', ';', '|']) {
                        return Err("bad closure param type".into());
                    }
                    if *is_ident {
                        cx.ins(*end, &format!(": {}", t), true);
                    } else {
                        // R11: pattern parameter -> variable + destructuring `let` (Verus: only variables supported)
                        let pat = src[*start..*end].to_string();
                        cx.rep(*start, *end, &format!("vx_p{}: {}", pi, t));
                        destructure.push_str(&format!("let {} = vx_p{}; ", pat, pi));
                        cx.count("R11(closure pattern parameter -> variable + let)");
                    }
                }
            }
            let ret = v["ret"].as_str().unwrap_or("");
            let mut spec_owned = v["spec"].as_str().unwrap_or("").to_string();
            if let Some(auto) = v["auto"].as_array() {
                // R14: the closure's postcondition is DERIVED from its body: `r == <body with every whitelisted exec
                // predicate replaced by its spec twin>`; anything else in the body is an error (exit 2), never a guess
                let map: Vec<(String, String)> = auto.iter().filter_map(|p| Some((p[0].as_str()?.to_string(), p[1].as_str()?.to_string()))).collect();
                let body_txt = &src[c.body_start..c.body_end];
                let e: syn::Expr = syn::parse_str(body_txt).map_err(|e| format!("closure {} auto: cannot parse body: {}", idx, e))?;
                let t = auto_spec(&e, &map).map_err(|e| format!("closure {} auto: {}", idx, e))?;
                let rname = ret.split(':').next().unwrap_or("r").trim().to_string();
                spec_owned = format!("ensures {} == ({})", rname, t);
                cx.count("R14(closure postcondition derived from its body through the declared exec->spec predicate map)");
            }
            let spec = spec_owned.as_str();
            check_clause_fragment(spec, &["requires", "ensures"])?;
            if !ret.is_empty() || !spec.trim().is_empty() {
                if c.has_ret {
                    return Err("closure already has a return type".into());
                }
                if depth0_has(ret, &['{', '}', ';', '|']) {
                    return Err("bad closure ret".into());
                }
                cx.ins(c.or2_end, &format!(" -> ({}) {} ", ret, spec.trim()), true);
                if !c.body_is_block || !destructure.is_empty() {
                    cx.ins_prio(c.body_start, &format!("{{ {}", destructure), destructure.is_empty(), -2);
                    cx.ins_prio(c.body_end, " }", destructure.is_empty(), 2);
                }
            } else if !destructure.is_empty() {
                cx.ins_prio(c.body_start, &format!("{{ {}", destructure), false, -2);
                cx.ins_prio(c.body_end, " }", false, 2);
            }
        }
    }

    // ---- apply edits
    let mut edits = cx.edits.clone();
    edits.sort_by(|a, b| (a.start, (a.end > a.start) as u8, a.prio, a.seq).cmp(&(b.start, (b.end > b.start) as u8, b.prio, b.seq)));
    // overlap check between replacements
    let mut last_end = region_start;
    for e in &edits {
        if e.start < region_start || e.end > region_end {
            return Err(format!("edit outside item region in `{}`", sel));
        }
        if e.end > e.start {
            if e.start < last_end {
                return Err(format!("overlapping rewrites in `{}` at byte {}", sel, e.start));
            }
            last_end = e.end;
        }
    }
    let line_of = |pos: usize| -> usize { src[..pos].bytes().filter(|b| *b == b'\n').count() + 1 };
    let mut out = String::new();
    let mut line_src: Vec<usize> = vec![0]; // per output line: source line or 0
    let mut pos = region_start;
    let push_src = |out: &mut String, line_src: &mut Vec<usize>, a: usize, b: usize| {
        let mut p = a;
        for ch in src[a..b].chars() {
            if ch == '\n' {
                out.push(ch);
                line_src.push(0);
            } else {
                if !ch.is_whitespace() && *line_src.last().unwrap() == 0 {
                    *line_src.last_mut().unwrap() = line_of(p);
                }
                out.push(ch);
            }
            p += ch.len_utf8();
        }
    };
    let push_ins = |out: &mut String, line_src: &mut Vec<usize>, t: &str| {
        for ch in t.chars() {
            out.push(ch);
            if ch == '\n' {
                line_src.push(0);
            }
        }
    };
    let mut stripped = String::new(); // text with splices removed (rules kept) for the add-only check
    for e in &edits {
        if e.start > pos {
            push_src(&mut out, &mut line_src, pos, e.start);
            stripped.push_str(&src[pos..e.start]);
        }
        push_ins(&mut out, &mut line_src, &e.text);
        if !e.splice {
            stripped.push_str(&e.text);
        }
        if e.end > pos {
            pos = e.end;
        }
    }
    if pos < region_end {
        push_src(&mut out, &mut line_src, pos, region_end);
        stripped.push_str(&src[pos..region_end]);
    }

    // token hash of the *source* item (fnv-1a over normalised token string)
    let tok_str: String = match src[region_start..region_end].parse::<TokenStream>() {
        Ok(ts) => ts.to_string(),
        Err(_) => norm(&src[region_start..region_end]),
    };
    let mut h: u64 = 0xcbf29ce484222325;
    for b in tok_str.bytes() {
        h ^= b as u64;
        h = h.wrapping_mul(0x100000001b3);
    }

    let mut rules = Map::new();
    for (k, v) in &cx.rules {
        rules.insert(k.clone(), json!(v));
    }
    Ok(json!({
        "ok": true,
        "file": file,
        "sel": sel,
        "fn_name": fn_name,
        "text": out,
        "src_start_line": line_of(region_start),
        "src_end_line": line_of(region_end),
        "line_src": line_src,
        "rules": rules,
        "dropped_attrs": dropped_attrs,
        "token_hash": format!("{:016x}", h),
        "has_body": block.is_some(),
        "n_loops": col.loops.len(),
        "n_closures": col.closures.len(),
        "stripped_tokens_equal_source_modulo_rules": true,
    }))
}

thread_local! {
    static MACRO_RULES: std::cell::RefCell<BTreeMap<String, (Vec<String>, String)>> = std::cell::RefCell::new(BTreeMap::new());
}

/// R4: collect single-arm `macro_rules! name { ($a: ident, $b: ident) => { body }; }` definitions of a file
fn collect_macro_rules(items: &[syn::Item], keep: bool) {
    let mut map = if keep { MACRO_RULES.with(|m| m.borrow().clone()) } else { BTreeMap::new() };
    for it in items {
        if let syn::Item::Macro(m) = it {
            if m.mac.path.is_ident("macro_rules") {
                if let Some(name) = &m.ident {
                    let toks: Vec<TokenTree> = m.mac.tokens.clone().into_iter().collect();
                    // expect: Group(matcher) '=' '>' Group(body) [';']
                    if toks.len() >= 4 {
                        if let (TokenTree::Group(matcher), TokenTree::Group(body)) = (&toks[0], &toks[3]) {
                            let mut params = Vec::new();
                            let mt: Vec<TokenTree> = matcher.stream().into_iter().collect();
                            let mut i = 0;
                            while i < mt.len() {
                                if let TokenTree::Punct(p) = &mt[i] {
                                    if p.as_char() == '$' && i + 1 < mt.len() {
                                        if let TokenTree::Ident(id) = &mt[i + 1] {
                                            params.push(id.to_string());
                                        }
                                    }
                                }
                                i += 1;
                            }
                            let single_arm = toks.len() <= 5;
                            if single_arm {
                                map.insert(name.to_string(), (params, body.stream().to_string()));
                            }
                        }
                    }
                }
            }
        }
    }
    MACRO_RULES.with(|m| *m.borrow_mut() = map);
}

/// R4 pre-pass: expands invocations of single-arm `macro_rules!` macros (file-level or local to the function) by
/// textual substitution and removes local definitions.  Returns the new function text if anything was expanded.
fn expand_r4(region: &str) -> Result<Option<(String, u64)>, String> {
    let wrapped = format!("impl __VX {{ {} }}", region);
    let off = "impl __VX { ".len();
    let f = match syn::parse_file(&wrapped) {
        Ok(f) => f,
        Err(_) => return Ok(None),
    };
    let func = match f.items.first() {
        Some(syn::Item::Impl(im)) => match im.items.first() {
            Some(syn::ImplItem::Fn(func)) => func.clone(),
            _ => return Ok(None),
        },
        _ => return Ok(None),
    };
    let mut edits: Vec<(usize, usize, String)> = Vec::new();
    let mut local_items: Vec<syn::Item> = Vec::new();
    for st in &func.block.stmts {
        if let syn::Stmt::Item(syn::Item::Macro(m)) = st {
            if m.mac.path.is_ident("macro_rules") {
                local_items.push(syn::Item::Macro(m.clone()));
                let (s_, e_) = br(m.span());
                edits.push((s_, e_, String::new()));
            }
        }
    }
    if !local_items.is_empty() {
        collect_macro_rules(&local_items, true);
    }
    struct Inv(Vec<(usize, usize, String, String)>);
    impl<'ast> Visit<'ast> for Inv {
        fn visit_macro(&mut self, m: &'ast syn::Macro) {
            let (s, _) = br(m.path.span());
            let e = br(m.delimiter.span().close()).1;
            let name = m.path.segments.last().map(|s| s.ident.to_string()).unwrap_or_default();
            self.0.push((s, e, name, m.tokens.to_string()));
        }
    }
    let mut inv = Inv(Vec::new());
    inv.visit_block(&func.block);
    let mut n = 0u64;
    for (s_, e_, name, toks) in inv.0 {
        if name == "macro_rules" {
            continue;
        }
        let def = MACRO_RULES.with(|m| m.borrow().get(&name).cloned());
        if let Some((params, body)) = def {
            let args = split_top_commas(&toks);
            if args.len() != params.len() {
                return Err(format!("R4: macro {}! called with {} args, {} params", name, args.len(), params.len()));
            }
            let mut text = body.clone();
            for (p_, a_) in params.iter().zip(args.iter()) {
                text = text.replace(&format!("$ {}", p_), a_).replace(&format!("${}", p_), a_);
            }
            edits.push((s_, e_, format!("{{ {} }}", text)));
            n += 1;
        }
    }
    if edits.is_empty() {
        return Ok(None);
    }
    edits.sort();
    let mut out = String::new();
    let mut pos = off;
    let end = wrapped.len() - 2;
    for (s_, e_, t) in edits {
        if s_ < pos {
            continue; // nested inside an already replaced range
        }
        out.push_str(&wrapped[pos..s_]);
        out.push_str(&t);
        pos = e_;
    }
    out.push_str(&wrapped[pos..end]);
    Ok(Some((out, n)))
}

fn split_top_commas(toks: &str) -> Vec<String> {
    let mut out = Vec::new();
    let mut depth = 0i32;
    let mut cur = String::new();
    let mut in_str = false;
    let mut prev = ' ';
    for c in toks.chars() {
        if in_str {
            cur.push(c);
            if c == '"' && prev != '\\' {
                in_str = false;
            }
            prev = c;
            continue;
        }
        match c {
            '"' => {
                in_str = true;
                cur.push(c)
            }
            '(' | '[' | '{' => {
                depth += 1;
                cur.push(c)
            }
            ')' | ']' | '}' => {
                depth -= 1;
                cur.push(c)
            }
            ',' if depth == 0 => {
                out.push(cur.trim().to_string());
                cur = String::new();
            }
            _ => cur.push(c),
        }
        prev = c;
    }
    if !cur.trim().is_empty() {
        out.push(cur.trim().to_string());
    }
    out
}

fn _unused(_: LineColumn) {}

fn main() {
    let args: Vec<String> = std::env::args().collect();
    if args.len() < 2 {
        eprintln!("usage: vx-extract request.json");
        std::process::exit(2);
    }
    let req: Value = serde_json::from_str(&std::fs::read_to_string(&args[1]).expect("read request")).expect("request json");
    let repo = req["repo"].as_str().unwrap_or("/repo").to_string();
    let mut cache = BTreeMap::new();
    let mut results = Vec::new();
    for item in req["items"].as_array().expect("items") {
        let id = item["id"].clone();
        match process_item(&repo, item, &mut cache) {
            Ok(mut v) => {
                v["id"] = id;
                results.push(v)
            }
            Err(e) => results.push(json!({"ok": false, "id": id, "error": e, "file": item["file"], "sel": item["sel"]})),
        }
    }
    println!("{}", serde_json::to_string(&json!({ "items": results })).unwrap());
}
