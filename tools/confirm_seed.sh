#!/bin/bash
# usage: tools/confirm_seed.sh <id>   -- in the agent's scratch worktree /tmp/wt_<id>: suite passes with the change, demo fails with / passes without
id=$1; wt=/tmp/wt_$id
cd $wt || exit 2
export CARGO_TARGET_DIR=$wt/target CARGO_NET_OFFLINE=true
out=/verif/seeded/$id/confirm.txt
{
echo "== suite with change"; cargo test --offline --lib 2>&1 | grep -E '^test result' 
echo "== demo with change (must fail)"; cargo test --offline --test demo_$id 2>&1 | grep -E '^test result'
git stash push -q -- rust
echo "== demo without change (must pass)"; cargo test --offline --test demo_$id 2>&1 | grep -E '^test result'
git stash pop -q
} > $out 2>&1
cat $out
