#!/bin/bash
# runs every registered check (quick tier) on the tree as it is and rewrites every evidence file; prints the ones that are not exit 0
cd /verif
bad=0
for c in $(python3 -c "import sys; sys.path.insert(0,'/verif'); from vxlib import config; print(' '.join(sorted(config.CHECKS)))"); do
  out=$(python3 verif.py check $c 2>&1 | tail -3); rc=$?
  line=$(echo "$out" | grep -E "^$c \[" | tail -1)
  echo "$line"
  if ! echo "$line" | grep -q 'violations=0 undecided=0'; then echo "   !! $c needs attention: $out"; bad=1; fi
done
exit $bad
