#!/usr/bin/env python3
"""Regenerates MANIFEST.json from vxlib/config.py (checks) and vxlib/manifest_text.py (texts)."""
import json, os, sys
ROOT = os.path.dirname(os.path.dirname(os.path.abspath(__file__)))
sys.path.insert(0, ROOT)
from vxlib import config, manifest_text as mt

props = [json.loads(l)["id"] for l in open(os.path.join(ROOT, "properties.jsonl"))]
checks = []
for pid in props:
    if pid in config.CHECKS and pid in mt.TEXT:
        t = mt.TEXT[pid]
        checks.append({
            "property_id": pid,
            "quick_cmd": f"python3 verif.py check {pid} --tier quick",
            "thorough_cmd": f"python3 verif.py check {pid} --tier thorough",
            "evidence_file": f"/verif/evidence/{pid}.json",
            "replay_cmd_template": "cat {path}",
            "engine": t.get("engine", "verus+kani"),
            "level_claimed": {"category": config.CHECKS[pid].get("level", "proof"), "text": t["level_text"], "design_ref": t.get("design_ref", "DESIGN.md §7")},
            "level_note": t["level_note"] + ((" Dependency units run with this check, every obligation in them counted (callee contracts are re-proved here, not merely cited; a failed dependency obligation is a violation of this property only with a failing input replayed on the real code, otherwise undecided): " + ", ".join(config.CHECKS[pid]["dep_units"]) + ".") if config.CHECKS[pid].get("dep_units") else ""),
            "technique": t["technique"],
        })
na = [{"property_id": pid, "reason": mt.NOT_APPLICABLE.get(pid, "check not built yet (planned in DESIGN.md §0); not claimed")} for pid in props if pid not in [c["property_id"] for c in checks]]
man = {
    "version": 1,
    "setup_cmd": "python3 verif.py setup",
    "hooks": mt.HOOKS,
    "engines": mt.ENGINES,
    "checks": checks,
    "not_applicable": na,
    "notes": mt.NOTES,
}
json.dump(man, open(os.path.join(ROOT, "MANIFEST.json"), "w"), indent=1)
print(f"{len(checks)} checks, {len(na)} not_applicable")
