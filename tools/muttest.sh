#!/bin/bash
# usage: tools/muttest.sh <patch-file> <property>...   applies an ad-hoc patch to /repo, runs the checks, reverts.
set -u
pf=$1; shift
cd /repo || exit 2
if ! git diff --quiet; then echo "/repo has uncommitted changes"; exit 2; fi
git apply "$pf" || { echo "patch does not apply"; exit 2; }
cd /verif
for p in "$@"; do
  python3 verif.py check $p ${TIER:+--tier $TIER} | grep -E 'VIOLATION|UNDECIDED|KNOWN|obligations='; echo "   -> $p rc=${PIPESTATUS[0]}"
done
git -C /repo checkout -- .
