#!/bin/bash
# usage: tools/seedtest.sh <seed-dir-name> <property>...   applies seeded/<name>/patch.diff to /repo, runs the checks, reverts.
set -u
name=$1; shift
cd /repo || exit 2
if ! git diff --quiet; then echo "/repo has uncommitted changes"; exit 2; fi
git apply /verif/seeded/$name/patch.diff || { echo "patch does not apply"; exit 2; }
cd /verif
for p in "$@"; do
  python3 verif.py check $p ${TIER:+--tier $TIER}; echo "   -> $p rc=$?"
done
git -C /repo checkout -- .
git -C /repo status --short
