#!/bin/bash
# usage: tools/confirm_seed2.sh <worktree> <seed-name> <demo-file-stem>
#   in the agent's scratch worktree: suite passes with the change, demo fails with / passes without (no git stash: shared by worktrees)
wt=$1; name=$2; demo=$3
cd $wt || exit 2
export CARGO_TARGET_DIR=$wt/target CARGO_NET_OFFLINE=true
mkdir -p /verif/seeded/$name
cp $wt/seed/patch.diff /verif/seeded/$name/patch.diff
cp $wt/seed/$demo.rs /verif/seeded/$name/$demo.rs
cp $wt/seed/meta.json /verif/seeded/$name/meta.json
git checkout -q -- rust; git apply $wt/seed/patch.diff || exit 2
mkdir -p tests; cp $wt/seed/$demo.rs tests/$demo.rs
out=/verif/seeded/$name/confirm.txt
{
echo "== suite with change"; cargo test --offline --lib 2>&1 | grep -E '^test result'
echo "== demo with change (must fail)"; cargo test --offline --test $demo 2>&1 | grep -E '^test result'
git apply -R $wt/seed/patch.diff
echo "== demo without change (must pass)"; cargo test --offline --test $demo 2>&1 | grep -E '^test result'
git apply $wt/seed/patch.diff
} > $out 2>&1
cat $out
