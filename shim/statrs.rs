// ---------------------------------------------------------------------------------------------
// shim/statrs.rs -- ASSUMED contracts (tier A) on statrs::distribution::Normal and std::f64::consts::PI:
// the standard normal cdf and its inverse are uninterpreted real functions (r_norm_cdf, r_norm_inv_cdf).
// ---------------------------------------------------------------------------------------------
#[verifier::external_body]
pub struct Normal { _p: u8 }
#[verifier::external_body]
pub struct StatsError { _p: u8 }
impl core::fmt::Debug for StatsError {
    #[verifier::external_body]
    fn fmt(&self, f: &mut core::fmt::Formatter<'_>) -> core::fmt::Result { unimplemented!() }
}
impl Normal {
    #[verifier::external_body]
    pub fn new(mean: R64, std_dev: R64) -> (r: Result<Normal, StatsError>)
        ensures (mean@ == 0real && std_dev@ == 1real) ==> r.is_ok(),
    { unimplemented!() }
    #[verifier::external_body]
    pub fn cdf(&self, x: R64) -> (r: R64) ensures r@ == r_norm_cdf(x@) { unimplemented!() }
    #[verifier::external_body]
    pub fn inverse_cdf(&self, x: R64) -> (r: R64) ensures r@ == r_norm_inv_cdf(x@) { unimplemented!() }
}
/// `std::f64::consts::PI` (substituted for the constant, listed under rewrite rules)
#[verifier::external_body]
pub fn vx_pi() -> (r: R64) ensures r@ == r_pi() { unimplemented!() }
