// ------------------------------------------------------------------------------------------
// shim/ndarray_la.rs -- ASSUMED contracts on the ndarray API used by rust/dual/linalg only (views, slices `s![..]` as
// declared substitutions, axis iterators)
// ------------------------------------------------------------------------------------------
pub mod la_shim {
use vstd::prelude::*;
use super::nd_shim::*;
use super::coll_shim::*;

impl<'a, T> ArrayView1<'a, T> {
    /// R2: `b[i]` on a view
    #[verifier::external_body]
    pub fn vx_get(&self, i: usize) -> (r: &T)
        requires i < self.sv().len(),
        ensures *r == self.sv()[i as int],
    { unimplemented!() }

    #[verifier::external_body]
    pub fn len_of(&self, ax: Axis) -> (r: usize)
        requires ax.0 == 0,
        ensures r == self.sv().len(),
    { unimplemented!() }
}

impl<'a, T: Clone> ArrayView1<'a, T> {
    #[verifier::external_body]
    pub fn to_owned(&self) -> (r: Array1<T>) ensures r.sv() == self.sv() { unimplemented!() }
}

impl<'a, T> ArrayView2<'a, T> {
    #[verifier::external_body]
    pub fn vx_get(&self, ij: [usize; 2]) -> (r: &T)
        requires ij[0] < self.nr(), ij[1] < self.nc(),
        ensures *r == self.at(ij[0] as int, ij[1] as int),
    { unimplemented!() }

    #[verifier::external_body]
    pub fn len_of(&self, ax: Axis) -> (r: usize)
        requires ax.0 == 0 || ax.0 == 1,
        ensures ax.0 == 0 ==> r == self.nr(), ax.0 == 1 ==> r == self.nc(),
    { unimplemented!() }

    #[verifier::external_body]
    pub fn is_square(&self) -> (r: bool) ensures r == (self.nr() == self.nc()) { unimplemented!() }
}

pub open spec fn view_row<T>(m: ArrayView2<T>, i: int) -> Seq<T> { Seq::new(m.nc(), |c: int| m.at(i, c)) }
pub open spec fn view_col<T>(m: ArrayView2<T>, j: int) -> Seq<T> { Seq::new(m.nr(), |r: int| m.at(r, j)) }

impl<'a, T> ArrayView2<'a, T> {
    /// `axis_iter(Axis(0))`: the rows; `axis_iter(Axis(1))`: the columns
    #[verifier::external_body]
    pub fn axis_iter(&self, ax: Axis) -> (r: VxIter<ArrayView1<'_, T>>)
        requires ax.0 == 0 || ax.0 == 1,
        ensures
            ax.0 == 0 ==> r.seq().len() == self.nr() && forall|i: int| 0 <= i < self.nr() ==> (#[trigger] r.seq()[i]).sv() == view_row(*self, i),
            ax.0 == 1 ==> r.seq().len() == self.nc() && forall|j: int| 0 <= j < self.nc() ==> (#[trigger] r.seq()[j]).sv() == view_col(*self, j),
    { unimplemented!() }

    #[verifier::external_body]
    pub fn t(&self) -> (r: ArrayView2<'_, T>)
        ensures r.nr() == self.nc(), r.nc() == self.nr(), forall|i: int, j: int| #[trigger] r.at(i, j) == self.at(j, i),
    { unimplemented!() }
}

impl<'a, T: Clone> ArrayView2<'a, T> {
    #[verifier::external_body]
    pub fn to_owned(&self) -> (r: Array2<T>)
        ensures r.nr() == self.nr(), r.nc() == self.nc(), forall|i: int, j: int| #[trigger] r.at(i, j) == self.at(i, j),
    { unimplemented!() }
}

pub open spec fn row_tail_seq<T>(u: ArrayView2<T>, i: int, from: int) -> Seq<T> { Seq::new((u.nc() - from) as nat, |m: int| u.at(i, from + m)) }
pub open spec fn col_tail_seq<T>(a: Array2<T>, from: int, col: int) -> Seq<T> { Seq::new((a.nr() - from) as nat, |m: int| a.at(from + m, col)) }

/// `u.slice(s![i, from..])`: the part of row i from column `from` on  (declared substitution S)
#[verifier::external_body]
pub fn vx_row_tail<'a, T>(u: &'a ArrayView2<'_, T>, i: usize, from: usize) -> (r: ArrayView1<'a, T>)
    requires i < u.nr(), from <= u.nc(),
    ensures r.sv() == row_tail_seq(*u, i as int, from as int),
{ unimplemented!() }

/// `x.slice(s![from..])`
#[verifier::external_body]
pub fn vx_tail<'a, T>(x: &'a Array1<T>, from: usize) -> (r: ArrayView1<'a, T>)
    requires from <= x.sv().len(),
    ensures r.sv() == x.sv().subrange(from as int, x.sv().len() as int),
{ unimplemented!() }

/// the same slice taken from a view
pub open spec fn vcol_tail_seq<T>(a: ArrayView2<T>, from: int, col: int) -> Seq<T> { Seq::new((a.nr() - from) as nat, |m: int| a.at(from + m, col)) }
#[verifier::external_body]
pub fn vx_vcol_tail<'a, T>(a: &'a ArrayView2<'_, T>, from: usize, col: usize) -> (r: ArrayView1<'a, T>)
    requires from <= a.nr(), col < a.nc(),
    ensures r.sv() == vcol_tail_seq(*a, from as int, col as int),
{ unimplemented!() }

/// `a.slice(s![from.., col])`: column `col` from row `from` on
#[verifier::external_body]
pub fn vx_col_tail<'a, T>(a: &'a Array2<T>, from: usize, col: usize) -> (r: ArrayView1<'a, T>)
    requires from <= a.nr(), col < a.nc(),
    ensures r.sv() == col_tail_seq(*a, from as int, col as int),
{ unimplemented!() }

}
pub use la_shim::*;
