// ---------------------------------------------------------------------------------------------
// shim/r64.rs -- rule R6: `f64` is bound to `R64`, an abstract number whose view is a mathematical
// real (tier A: MACHINE ARITHMETIC TREATED AS MATHEMATICAL -- rounding, NaN, +-inf and signed zero
// are dropped).  Division requires a non-zero divisor, ln/powf-with-real-exponent have no domain
// precondition (they return *some* real; the AD rules only rely on the derivative facts stated as
// oracle in spec/ad.rs, never on facts chosen to make a body verify).
// ---------------------------------------------------------------------------------------------
pub mod r64_shim {
use vstd::prelude::*;

#[verifier::external_body]
pub struct R64 { _p: f64 }

impl Clone for R64 {
    #[verifier::external_body]
    fn clone(&self) -> (r: Self) ensures r == *self { unimplemented!() }
}
impl Copy for R64 {}

impl View for R64 {
    type V = real;
    uninterp spec fn view(&self) -> real;
}

/// the R64 with a given real value
pub uninterp spec fn r64_of(x: real) -> R64;

#[verifier::external_body]
pub broadcast proof fn axiom_r64_of(x: real)
    ensures (#[trigger] r64_of(x))@ == x,
{ }

#[verifier::external_body]
pub broadcast proof fn axiom_r64_ext(a: R64, b: R64)
    requires #[trigger] a@ == #[trigger] b@,
    ensures a == b,
{ }

// uninterpreted transcendental functions (oracle side: only their derivative facts are used)
pub uninterp spec fn r_exp(x: real) -> real;
pub uninterp spec fn r_ln(x: real) -> real;
pub uninterp spec fn r_pow(x: real, p: real) -> real;
pub uninterp spec fn r_sqrt(x: real) -> real;
pub uninterp spec fn r_norm_cdf(x: real) -> real;
pub uninterp spec fn r_norm_inv_cdf(x: real) -> real;
pub uninterp spec fn r_trunc(x: real) -> real;
pub uninterp spec fn r_pi() -> real;

pub open spec fn r_abs(x: real) -> real { if x < 0real { -x } else { x } }

impl R64 {
    /// R6: a float literal `n/d` written exactly
    #[verifier::external_body]
    pub fn lit(num: u64, den: u64) -> (r: R64)
        requires den > 0,
        ensures r@ == (num as real) / (den as real),
    { unimplemented!() }

    #[verifier::external_body]
    pub fn exp(self) -> (r: R64) ensures r@ == r_exp(self@) { unimplemented!() }
    #[verifier::external_body]
    pub fn ln(self) -> (r: R64) ensures r@ == r_ln(self@) { unimplemented!() }
    #[verifier::external_body]
    pub fn sqrt(self) -> (r: R64) ensures r@ == r_sqrt(self@) { unimplemented!() }
    #[verifier::external_body]
    pub fn powf(self, p: R64) -> (r: R64) ensures r@ == r_pow(self@, p@) { unimplemented!() }
    /// num_traits::Pow<f64> for f64 is powf
    #[verifier::external_body]
    pub fn pow(self, p: R64) -> (r: R64) ensures r@ == r_pow(self@, p@) { unimplemented!() }
    #[verifier::external_body]
    pub fn abs(self) -> (r: R64) ensures r@ == r_abs(self@) { unimplemented!() }
    #[verifier::external_body]
    pub fn trunc(self) -> (r: R64) ensures r@ == r_trunc(self@) { unimplemented!() }
}

pub open spec fn r64_nonzero(b: R64) -> bool { b@ != 0real }

// the 4 ownership variants of + - * / (expanded by hand-run generator, no macros inside verus!)
impl vstd::std_specs::ops::AddSpecImpl<R64> for R64 {
    open spec fn obeys_add_spec() -> bool { true }
    open spec fn add_req(self, rhs: R64) -> bool { true }
    open spec fn add_spec(self, rhs: R64) -> R64 { r64_of(self@ + rhs@) }
}
impl core::ops::Add<R64> for R64 {
    type Output = R64;
    #[verifier::external_body]
    fn add(self, rhs: R64) -> (r: R64) { unimplemented!() }
}
impl<'a> vstd::std_specs::ops::AddSpecImpl<&'a R64> for R64 {
    open spec fn obeys_add_spec() -> bool { true }
    open spec fn add_req(self, rhs: &'a R64) -> bool { true }
    open spec fn add_spec(self, rhs: &'a R64) -> R64 { r64_of(self@ + rhs@) }
}
impl<'a> core::ops::Add<&'a R64> for R64 {
    type Output = R64;
    #[verifier::external_body]
    fn add(self, rhs: &'a R64) -> (r: R64) { unimplemented!() }
}
impl<'a> vstd::std_specs::ops::AddSpecImpl<R64> for &'a R64 {
    open spec fn obeys_add_spec() -> bool { true }
    open spec fn add_req(self, rhs: R64) -> bool { true }
    open spec fn add_spec(self, rhs: R64) -> R64 { r64_of(self@ + rhs@) }
}
impl<'a> core::ops::Add<R64> for &'a R64 {
    type Output = R64;
    #[verifier::external_body]
    fn add(self, rhs: R64) -> (r: R64) { unimplemented!() }
}
impl<'a, 'b> vstd::std_specs::ops::AddSpecImpl<&'b R64> for &'a R64 {
    open spec fn obeys_add_spec() -> bool { true }
    open spec fn add_req(self, rhs: &'b R64) -> bool { true }
    open spec fn add_spec(self, rhs: &'b R64) -> R64 { r64_of(self@ + rhs@) }
}
impl<'a, 'b> core::ops::Add<&'b R64> for &'a R64 {
    type Output = R64;
    #[verifier::external_body]
    fn add(self, rhs: &'b R64) -> (r: R64) { unimplemented!() }
}
impl vstd::std_specs::ops::SubSpecImpl<R64> for R64 {
    open spec fn obeys_sub_spec() -> bool { true }
    open spec fn sub_req(self, rhs: R64) -> bool { true }
    open spec fn sub_spec(self, rhs: R64) -> R64 { r64_of(self@ - rhs@) }
}
impl core::ops::Sub<R64> for R64 {
    type Output = R64;
    #[verifier::external_body]
    fn sub(self, rhs: R64) -> (r: R64) { unimplemented!() }
}
impl<'a> vstd::std_specs::ops::SubSpecImpl<&'a R64> for R64 {
    open spec fn obeys_sub_spec() -> bool { true }
    open spec fn sub_req(self, rhs: &'a R64) -> bool { true }
    open spec fn sub_spec(self, rhs: &'a R64) -> R64 { r64_of(self@ - rhs@) }
}
impl<'a> core::ops::Sub<&'a R64> for R64 {
    type Output = R64;
    #[verifier::external_body]
    fn sub(self, rhs: &'a R64) -> (r: R64) { unimplemented!() }
}
impl<'a> vstd::std_specs::ops::SubSpecImpl<R64> for &'a R64 {
    open spec fn obeys_sub_spec() -> bool { true }
    open spec fn sub_req(self, rhs: R64) -> bool { true }
    open spec fn sub_spec(self, rhs: R64) -> R64 { r64_of(self@ - rhs@) }
}
impl<'a> core::ops::Sub<R64> for &'a R64 {
    type Output = R64;
    #[verifier::external_body]
    fn sub(self, rhs: R64) -> (r: R64) { unimplemented!() }
}
impl<'a, 'b> vstd::std_specs::ops::SubSpecImpl<&'b R64> for &'a R64 {
    open spec fn obeys_sub_spec() -> bool { true }
    open spec fn sub_req(self, rhs: &'b R64) -> bool { true }
    open spec fn sub_spec(self, rhs: &'b R64) -> R64 { r64_of(self@ - rhs@) }
}
impl<'a, 'b> core::ops::Sub<&'b R64> for &'a R64 {
    type Output = R64;
    #[verifier::external_body]
    fn sub(self, rhs: &'b R64) -> (r: R64) { unimplemented!() }
}
impl vstd::std_specs::ops::MulSpecImpl<R64> for R64 {
    open spec fn obeys_mul_spec() -> bool { true }
    open spec fn mul_req(self, rhs: R64) -> bool { true }
    open spec fn mul_spec(self, rhs: R64) -> R64 { r64_of(self@ * rhs@) }
}
impl core::ops::Mul<R64> for R64 {
    type Output = R64;
    #[verifier::external_body]
    fn mul(self, rhs: R64) -> (r: R64) { unimplemented!() }
}
impl<'a> vstd::std_specs::ops::MulSpecImpl<&'a R64> for R64 {
    open spec fn obeys_mul_spec() -> bool { true }
    open spec fn mul_req(self, rhs: &'a R64) -> bool { true }
    open spec fn mul_spec(self, rhs: &'a R64) -> R64 { r64_of(self@ * rhs@) }
}
impl<'a> core::ops::Mul<&'a R64> for R64 {
    type Output = R64;
    #[verifier::external_body]
    fn mul(self, rhs: &'a R64) -> (r: R64) { unimplemented!() }
}
impl<'a> vstd::std_specs::ops::MulSpecImpl<R64> for &'a R64 {
    open spec fn obeys_mul_spec() -> bool { true }
    open spec fn mul_req(self, rhs: R64) -> bool { true }
    open spec fn mul_spec(self, rhs: R64) -> R64 { r64_of(self@ * rhs@) }
}
impl<'a> core::ops::Mul<R64> for &'a R64 {
    type Output = R64;
    #[verifier::external_body]
    fn mul(self, rhs: R64) -> (r: R64) { unimplemented!() }
}
impl<'a, 'b> vstd::std_specs::ops::MulSpecImpl<&'b R64> for &'a R64 {
    open spec fn obeys_mul_spec() -> bool { true }
    open spec fn mul_req(self, rhs: &'b R64) -> bool { true }
    open spec fn mul_spec(self, rhs: &'b R64) -> R64 { r64_of(self@ * rhs@) }
}
impl<'a, 'b> core::ops::Mul<&'b R64> for &'a R64 {
    type Output = R64;
    #[verifier::external_body]
    fn mul(self, rhs: &'b R64) -> (r: R64) { unimplemented!() }
}
impl vstd::std_specs::ops::DivSpecImpl<R64> for R64 {
    open spec fn obeys_div_spec() -> bool { true }
    open spec fn div_req(self, rhs: R64) -> bool { r64_nonzero(rhs) }
    open spec fn div_spec(self, rhs: R64) -> R64 { r64_of(self@ / rhs@) }
}
impl core::ops::Div<R64> for R64 {
    type Output = R64;
    #[verifier::external_body]
    fn div(self, rhs: R64) -> (r: R64) { unimplemented!() }
}
impl<'a> vstd::std_specs::ops::DivSpecImpl<&'a R64> for R64 {
    open spec fn obeys_div_spec() -> bool { true }
    open spec fn div_req(self, rhs: &'a R64) -> bool { r64_nonzero(*rhs) }
    open spec fn div_spec(self, rhs: &'a R64) -> R64 { r64_of(self@ / rhs@) }
}
impl<'a> core::ops::Div<&'a R64> for R64 {
    type Output = R64;
    #[verifier::external_body]
    fn div(self, rhs: &'a R64) -> (r: R64) { unimplemented!() }
}
impl<'a> vstd::std_specs::ops::DivSpecImpl<R64> for &'a R64 {
    open spec fn obeys_div_spec() -> bool { true }
    open spec fn div_req(self, rhs: R64) -> bool { r64_nonzero(rhs) }
    open spec fn div_spec(self, rhs: R64) -> R64 { r64_of(self@ / rhs@) }
}
impl<'a> core::ops::Div<R64> for &'a R64 {
    type Output = R64;
    #[verifier::external_body]
    fn div(self, rhs: R64) -> (r: R64) { unimplemented!() }
}
impl<'a, 'b> vstd::std_specs::ops::DivSpecImpl<&'b R64> for &'a R64 {
    open spec fn obeys_div_spec() -> bool { true }
    open spec fn div_req(self, rhs: &'b R64) -> bool { r64_nonzero(*rhs) }
    open spec fn div_spec(self, rhs: &'b R64) -> R64 { r64_of(self@ / rhs@) }
}
impl<'a, 'b> core::ops::Div<&'b R64> for &'a R64 {
    type Output = R64;
    #[verifier::external_body]
    fn div(self, rhs: &'b R64) -> (r: R64) { unimplemented!() }
}

/// `x % y` on floats is x - trunc(x / y) * y (fmod); the divisor must be non-zero in the real model
pub open spec fn r_rem(x: real, y: real) -> real { x - r_trunc(x / y) * y }

impl vstd::std_specs::ops::RemSpecImpl<R64> for R64 {
    open spec fn obeys_rem_spec() -> bool { true }
    open spec fn rem_req(self, rhs: R64) -> bool { r64_nonzero(rhs) }
    open spec fn rem_spec(self, rhs: R64) -> R64 { r64_of(r_rem(self@, rhs@)) }
}
impl core::ops::Rem<R64> for R64 {
    type Output = R64;
    #[verifier::external_body]
    fn rem(self, rhs: R64) -> (r: R64) { unimplemented!() }
}
impl<'a> vstd::std_specs::ops::RemSpecImpl<&'a R64> for R64 {
    open spec fn obeys_rem_spec() -> bool { true }
    open spec fn rem_req(self, rhs: &'a R64) -> bool { r64_nonzero(*rhs) }
    open spec fn rem_spec(self, rhs: &'a R64) -> R64 { r64_of(r_rem(self@, rhs@)) }
}
impl<'a> core::ops::Rem<&'a R64> for R64 {
    type Output = R64;
    #[verifier::external_body]
    fn rem(self, rhs: &'a R64) -> (r: R64) { unimplemented!() }
}
impl<'a> vstd::std_specs::ops::RemSpecImpl<R64> for &'a R64 {
    open spec fn obeys_rem_spec() -> bool { true }
    open spec fn rem_req(self, rhs: R64) -> bool { r64_nonzero(rhs) }
    open spec fn rem_spec(self, rhs: R64) -> R64 { r64_of(r_rem(self@, rhs@)) }
}
impl<'a> core::ops::Rem<R64> for &'a R64 {
    type Output = R64;
    #[verifier::external_body]
    fn rem(self, rhs: R64) -> (r: R64) { unimplemented!() }
}
impl<'a, 'b> vstd::std_specs::ops::RemSpecImpl<&'b R64> for &'a R64 {
    open spec fn obeys_rem_spec() -> bool { true }
    open spec fn rem_req(self, rhs: &'b R64) -> bool { r64_nonzero(*rhs) }
    open spec fn rem_spec(self, rhs: &'b R64) -> R64 { r64_of(r_rem(self@, rhs@)) }
}
impl<'a, 'b> core::ops::Rem<&'b R64> for &'a R64 {
    type Output = R64;
    #[verifier::external_body]
    fn rem(self, rhs: &'b R64) -> (r: R64) { unimplemented!() }
}
impl vstd::std_specs::ops::NegSpecImpl for R64 {
    open spec fn obeys_neg_spec() -> bool { true }
    open spec fn neg_req(self) -> bool { true }
    open spec fn neg_spec(self) -> R64 { r64_of(-self@) }
}
impl core::ops::Neg for R64 {
    type Output = R64;
    #[verifier::external_body]
    fn neg(self) -> (r: R64) { unimplemented!() }
}
impl<'a> vstd::std_specs::ops::NegSpecImpl for &'a R64 {
    open spec fn obeys_neg_spec() -> bool { true }
    open spec fn neg_req(self) -> bool { true }
    open spec fn neg_spec(self) -> R64 { r64_of(-self@) }
}
impl<'a> core::ops::Neg for &'a R64 {
    type Output = R64;
    #[verifier::external_body]
    fn neg(self) -> (r: R64) { unimplemented!() }
}

impl vstd::std_specs::cmp::PartialEqSpecImpl for R64 {
    open spec fn obeys_eq_spec() -> bool { true }
    open spec fn eq_spec(&self, other: &R64) -> bool { self@ == other@ }
}
impl PartialEq for R64 {
    #[verifier::external_body]
    fn eq(&self, other: &R64) -> (r: bool) { unimplemented!() }
}

impl vstd::std_specs::cmp::PartialOrdSpecImpl for R64 {
    open spec fn obeys_partial_cmp_spec() -> bool { true }
    open spec fn partial_cmp_spec(&self, other: &R64) -> Option<core::cmp::Ordering> {
        if self@ < other@ { Some(core::cmp::Ordering::Less) }
        else if self@ == other@ { Some(core::cmp::Ordering::Equal) }
        else { Some(core::cmp::Ordering::Greater) }
    }
}
impl PartialOrd for R64 {
    #[verifier::external_body]
    fn partial_cmp(&self, other: &R64) -> (r: Option<core::cmp::Ordering>) { unimplemented!() }
}

/// `x as f64` for the integer types used (R6: exact, no rounding)
pub trait VxAsF64 { spec fn as_real(&self) -> real; }
impl VxAsF64 for i64 { open spec fn as_real(&self) -> real { *self as real } }
impl VxAsF64 for usize { open spec fn as_real(&self) -> real { *self as real } }
impl VxAsF64 for i32 { open spec fn as_real(&self) -> real { *self as real } }
impl VxAsF64 for u32 { open spec fn as_real(&self) -> real { *self as real } }
#[verifier::external_body]
pub fn vx_as_f64<T: VxAsF64>(x: T) -> (r: R64) ensures r@ == x.as_real() { unimplemented!() }

pub broadcast group group_r64 {
    axiom_r64_of,
    axiom_r64_ext,
}

} // mod r64_shim
pub use r64_shim::*;
