// ---------------------------------------------------------------------------------------------
// shim/intspecs.rs -- specifications of core integer functions missing from vstd (tier A;
// each is the documented meaning of the std function and is checked by Kani over the full domain
// in /verif/kani/src/int_facts.rs). [K]
// ---------------------------------------------------------------------------------------------
