// ---------------------------------------------------------------------------------------------
// shim/intspecs.rs -- specifications of core integer functions missing from vstd (tier A;
// each is the documented meaning of the std function and is checked by Kani over the full domain
// in /verif/kani/src/int_facts.rs). [K]
// ---------------------------------------------------------------------------------------------

pub assume_specification [ i32::abs ](x: i32) -> (r: i32)
    requires x > i32::MIN,
    ensures r as int == (if x < 0 { -(x as int) } else { x as int }),
;

pub assume_specification [ i32::signum ](x: i32) -> (r: i32)
    ensures r as int == (if x > 0 { 1int } else if x == 0 { 0int } else { -1int }),
;

pub assume_specification [ i32::rem_euclid ](x: i32, rhs: i32) -> (r: i32)
    requires rhs != 0, !(x == i32::MIN && rhs == -1),
    ensures rhs > 0 ==> r as int == (x as int) % (rhs as int),
;

pub assume_specification [ i8::unsigned_abs ](x: i8) -> (r: u8)
    ensures r as int == (if x < 0 { -(x as int) } else { x as int }),
;

pub assume_specification [ <i32 as TryFrom<u32>>::try_from ](x: u32) -> (r: Result<i32, <i32 as TryFrom<u32>>::Error>)
    ensures
        x <= 0x7fff_ffff ==> r == Ok::<i32, <i32 as TryFrom<u32>>::Error>(x as i32),
        x > 0x7fff_ffff ==> r.is_err(),
;

/// Option::filter (core): keeps the value iff the predicate returns true on it
pub assume_specification<T, P: FnOnce(&T) -> bool> [ Option::<T>::filter ](o: Option<T>, predicate: P) -> (r: Option<T>)
    requires o.is_some() ==> predicate.requires((&o.unwrap(),)),
    ensures
        o.is_none() ==> r.is_none(),
        o.is_some() && predicate.ensures((&o.unwrap(),), true) ==> r == o,
        o.is_some() && predicate.ensures((&o.unwrap(),), false) ==> r.is_none(),
;


/// Option::map_or (core)
pub assume_specification<T, U, F: FnOnce(T) -> U> [ Option::<T>::map_or ](o: Option<T>, default: U, f: F) -> (r: U)
    requires o.is_some() ==> f.requires((o.unwrap(),)),
    ensures
        o.is_none() ==> r == default,
        o.is_some() ==> f.ensures((o.unwrap(),), r),
;
