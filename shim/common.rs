// ---------------------------------------------------------------------------------------------
// shim/common.rs -- targets of rewrite rules R8/R9 and the pyo3 error shim (tier A).
// ---------------------------------------------------------------------------------------------

/// R8: `panic!(..)` / `unreachable!(..)` become a call with precondition `false`, so that
/// "no reachable panic" is a proof obligation at every such site.
#[verifier::external_body]
pub fn vx_panic() -> !
    requires false,
{ panic!() }

/// R8': used in the "refusal" copies of the Number operators: a panic is a call that never returns normally
/// (no precondition).  A copy verified against `ensures false` therefore has NO path that returns a value.
#[verifier::external_body]
pub fn vx_refuse() -> !
    ensures false,
{ panic!() }

/// R8: `assert!(c)` / `assert_eq!(a, b)` become a call whose precondition is the asserted condition.
#[verifier::external_body]
pub fn vx_assert(c: bool)
    requires c,
{ }

/// R9: pyo3's error type; the payload (message) is dropped.
#[verifier::external_body]
pub struct PyErr { _p: u8 }

impl core::fmt::Debug for PyErr {
    #[verifier::external_body]
    fn fmt(&self, f: &mut core::fmt::Formatter<'_>) -> core::fmt::Result { unimplemented!() }
}

pub struct PyValueError { }
impl PyValueError {
    #[verifier::external_body]
    pub fn new_err(msg: &'static str) -> (r: PyErr) { unimplemented!() }
}
pub struct PyTypeError { }
impl PyTypeError {
    #[verifier::external_body]
    pub fn new_err(msg: &'static str) -> (r: PyErr) { unimplemented!() }
}
