// ---------------------------------------------------------------------------------------------
// shim/module.rs -- rule R5 for the f64-matrix linear algebra of rust/dual/linalg/linalg_f64.rs: the
// right-hand-side type parameter `T` (f64, Dual or Dual2) is bound to `Md`, an ABSTRACT module over the
// reals: uninterpreted + - zero and scalar multiplication `r . v` (what `&f64 * &T` computes), characterised
// only by the module axioms below (explicit lemmas, never broadcast).  A body verified against these axioms
// is correct for every instance that satisfies them: f64 itself (as reals), Dual and Dual2 (value and every
// derivative component scale and add linearly) -- for Dual/Dual2 that is ASSUMED, not re-derived.
// ---------------------------------------------------------------------------------------------
pub mod module_shim {
use vstd::prelude::*;
use super::r64_shim::*;

#[verifier::external_body]
pub struct Md { _p: u8 }

impl Clone for Md {
    #[verifier::external_body]
    fn clone(&self) -> (r: Self) ensures r == *self { unimplemented!() }
}

pub uninterp spec fn md_add(a: Md, b: Md) -> Md;
pub uninterp spec fn md_sub(a: Md, b: Md) -> Md;
pub uninterp spec fn md_smul(r: real, a: Md) -> Md;
pub uninterp spec fn md_zero() -> Md;

#[verifier::external_body]
pub proof fn mx_add_comm(a: Md, b: Md) ensures md_add(a, b) == md_add(b, a) { }
#[verifier::external_body]
pub proof fn mx_add_assoc(a: Md, b: Md, c: Md) ensures md_add(md_add(a, b), c) == md_add(a, md_add(b, c)) { }
#[verifier::external_body]
pub proof fn mx_add_zero(a: Md) ensures md_add(a, md_zero()) == a { }
#[verifier::external_body]
pub proof fn mx_sub_add(a: Md, b: Md) ensures md_add(md_sub(a, b), b) == a { }
#[verifier::external_body]
pub proof fn mx_smul_add(r: real, a: Md, b: Md) ensures md_smul(r, md_add(a, b)) == md_add(md_smul(r, a), md_smul(r, b)) { }
#[verifier::external_body]
pub proof fn mx_smul_radd(r: real, s: real, a: Md) ensures md_smul(r + s, a) == md_add(md_smul(r, a), md_smul(s, a)) { }
#[verifier::external_body]
pub proof fn mx_smul_assoc(r: real, s: real, a: Md) ensures md_smul(r, md_smul(s, a)) == md_smul(r * s, a) { }
#[verifier::external_body]
pub proof fn mx_smul_one(a: Md) ensures md_smul(1real, a) == a { }
#[verifier::external_body]
pub proof fn mx_smul_zero(r: real, a: Md) ensures md_smul(r, md_zero()) == md_zero(), md_smul(0real, a) == md_zero() { }

impl Md {
    /// num_traits::Zero::zero
    #[verifier::external_body]
    pub fn zero() -> (r: Md) ensures r == md_zero() { unimplemented!() }
}

impl<'a, 'b> vstd::std_specs::ops::SubSpecImpl<&'b Md> for &'a Md {
    open spec fn obeys_sub_spec() -> bool { true }
    open spec fn sub_req(self, rhs: &'b Md) -> bool { true }
    open spec fn sub_spec(self, rhs: &'b Md) -> Md { md_sub(*self, *rhs) }
}
impl<'a, 'b> core::ops::Sub<&'b Md> for &'a Md {
    type Output = Md;
    #[verifier::external_body]
    fn sub(self, rhs: &'b Md) -> (r: Md) { unimplemented!() }
}
/// `&f64 * &T`
impl<'a, 'b> vstd::std_specs::ops::MulSpecImpl<&'b Md> for &'a R64 {
    open spec fn obeys_mul_spec() -> bool { true }
    open spec fn mul_req(self, rhs: &'b Md) -> bool { true }
    open spec fn mul_spec(self, rhs: &'b Md) -> Md { md_smul(self@, *rhs) }
}
impl<'a, 'b> core::ops::Mul<&'b Md> for &'a R64 {
    type Output = Md;
    #[verifier::external_body]
    fn mul(self, rhs: &'b Md) -> (r: Md) { unimplemented!() }
}
}
pub use module_shim::*;
