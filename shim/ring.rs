// ---------------------------------------------------------------------------------------------
// shim/ring.rs -- rule R5 for the generic linear algebra of rust/dual/linalg: the type parameter `T`
// (f64, Dual or Dual2 at the call sites) is bound to `Rg`, an ABSTRACT commutative ring with
//   * uninterpreted + - * / and zero, characterised only by the ring axioms below (explicit lemmas,
//     never broadcast), `(a / p) * p == a` for invertible p,
//   * an order key `rg_akey(x) >= 0` -- what `x.abs().partial_cmp(..)` compares -- with
//     `rg_unit(x) <==> rg_akey(x) > 0`  (f64: |x| and x != 0;  Dual/Dual2: |real part| and real part != 0).
// A body verified against these axioms alone is correct for EVERY instance that satisfies them:
//   - R64 (f64 as reals): the axioms are proved in contracts/linalg.vx (lemma_r64_ring_*),
//   - Dual / Dual2: truncated power series over the reals; that their operations satisfy the axioms is
//     ASSUMED here (the rules they follow are C01-C03's; the ring identities themselves are not re-derived).
// ---------------------------------------------------------------------------------------------
pub mod ring_shim {
use vstd::prelude::*;

#[verifier::external_body]
pub struct Rg { _p: u8 }

impl Clone for Rg {
    #[verifier::external_body]
    fn clone(&self) -> (r: Self) ensures r == *self { unimplemented!() }
}

pub uninterp spec fn rg_add(a: Rg, b: Rg) -> Rg;
pub uninterp spec fn rg_sub(a: Rg, b: Rg) -> Rg;
pub uninterp spec fn rg_mul(a: Rg, b: Rg) -> Rg;
pub uninterp spec fn rg_div(a: Rg, b: Rg) -> Rg;
pub uninterp spec fn rg_zero() -> Rg;
/// the key compared by `abs().partial_cmp()`
pub uninterp spec fn rg_akey(a: Rg) -> real;
/// invertible
pub uninterp spec fn rg_unit(a: Rg) -> bool;

#[verifier::external_body]
pub proof fn ax_add_comm(a: Rg, b: Rg) ensures rg_add(a, b) == rg_add(b, a) { }
#[verifier::external_body]
pub proof fn ax_add_assoc(a: Rg, b: Rg, c: Rg) ensures rg_add(rg_add(a, b), c) == rg_add(a, rg_add(b, c)) { }
#[verifier::external_body]
pub proof fn ax_add_zero(a: Rg) ensures rg_add(a, rg_zero()) == a { }
#[verifier::external_body]
pub proof fn ax_mul_comm(a: Rg, b: Rg) ensures rg_mul(a, b) == rg_mul(b, a) { }
#[verifier::external_body]
pub proof fn ax_mul_assoc(a: Rg, b: Rg, c: Rg) ensures rg_mul(rg_mul(a, b), c) == rg_mul(a, rg_mul(b, c)) { }
#[verifier::external_body]
pub proof fn ax_distrib(a: Rg, b: Rg, c: Rg) ensures rg_mul(a, rg_add(b, c)) == rg_add(rg_mul(a, b), rg_mul(a, c)) { }
#[verifier::external_body]
pub proof fn ax_mul_zero(a: Rg) ensures rg_mul(a, rg_zero()) == rg_zero() { }
/// subtraction undoes addition
#[verifier::external_body]
pub proof fn ax_sub_add(a: Rg, b: Rg) ensures rg_add(rg_sub(a, b), b) == a { }
/// division by an invertible element undoes multiplication
#[verifier::external_body]
pub proof fn ax_div_unit(a: Rg, p: Rg) requires rg_unit(p) ensures rg_mul(rg_div(a, p), p) == a { }
#[verifier::external_body]
pub proof fn ax_key(a: Rg) ensures rg_akey(a) >= 0real, rg_unit(a) <==> rg_akey(a) > 0real { }

pub uninterp spec fn rg_one() -> Rg;
/// `r / x` for a float r (what `f64 / &T` computes); only `1.0 / x` is used: the reciprocal
pub uninterp spec fn rg_sdiv(r: real, x: Rg) -> Rg;
#[verifier::external_body]
pub proof fn ax_mul_one(a: Rg) ensures rg_mul(a, rg_one()) == a { }
/// the reciprocal of an invertible element
#[verifier::external_body]
pub proof fn ax_recip(x: Rg) requires rg_unit(x) ensures rg_mul(rg_sdiv(1real, x), x) == rg_one(), rg_unit(rg_sdiv(1real, x)) { }
/// products of invertible elements are invertible, and only those
#[verifier::external_body]
pub proof fn ax_unit_mul(a: Rg, b: Rg) ensures rg_unit(rg_mul(a, b)) <==> (rg_unit(a) && rg_unit(b)) { }

impl<'b> vstd::std_specs::ops::DivSpecImpl<&'b Rg> for super::r64_shim::R64 {
    open spec fn obeys_div_spec() -> bool { true }
    open spec fn div_req(self, rhs: &'b Rg) -> bool { true }
    open spec fn div_spec(self, rhs: &'b Rg) -> Rg { rg_sdiv(self@, *rhs) }
}
impl<'b> core::ops::Div<&'b Rg> for super::r64_shim::R64 {
    type Output = Rg;
    #[verifier::external_body]
    fn div(self, rhs: &'b Rg) -> (r: Rg) { unimplemented!() }
}

/// the key compared by `partial_cmp` on ring elements themselves (f64: the value; Dual/Dual2: the real part)
pub uninterp spec fn rg_okey(a: Rg) -> real;
pub uninterp spec fn rg_abs(a: Rg) -> Rg;
#[verifier::external_body]
pub proof fn ax_okey(a: Rg) ensures rg_okey(rg_zero()) == 0real, rg_okey(rg_abs(a)) == rg_akey(a) { }

impl vstd::std_specs::cmp::PartialEqSpecImpl for Rg {
    open spec fn obeys_eq_spec() -> bool { true }
    open spec fn eq_spec(&self, other: &Rg) -> bool { rg_okey(*self) == rg_okey(*other) }
}
/// `==` on Dual/Dual2 compares more than the real part; only `<`, `<=`, `>`, `>=` are meaningful on the abstract ring,
/// so `==` is left with the weakest reading (equal keys) and nothing is concluded from it about the elements
impl PartialEq for Rg {
    #[verifier::external_body]
    fn eq(&self, other: &Rg) -> (r: bool) { unimplemented!() }
}
impl vstd::std_specs::cmp::PartialOrdSpecImpl for Rg {
    open spec fn obeys_partial_cmp_spec() -> bool { true }
    open spec fn partial_cmp_spec(&self, other: &Rg) -> Option<core::cmp::Ordering> {
        if rg_okey(*self) < rg_okey(*other) { Some(core::cmp::Ordering::Less) }
        else if rg_okey(*self) == rg_okey(*other) { Some(core::cmp::Ordering::Equal) }
        else { Some(core::cmp::Ordering::Greater) }
    }
}
impl PartialOrd for Rg {
    #[verifier::external_body]
    fn partial_cmp(&self, other: &Rg) -> (r: Option<core::cmp::Ordering>) { unimplemented!() }
}

impl Rg {
    /// num_traits::Signed::abs
    #[verifier::external_body]
    pub fn abs(&self) -> (r: Rg) ensures r == rg_abs(*self) { unimplemented!() }

    /// num_traits::Zero::zero
    #[verifier::external_body]
    pub fn zero() -> (r: Rg) ensures r == rg_zero() { unimplemented!() }
}

impl<'a, 'b> vstd::std_specs::ops::SubSpecImpl<&'b Rg> for &'a Rg {
    open spec fn obeys_sub_spec() -> bool { true }
    open spec fn sub_req(self, rhs: &'b Rg) -> bool { true }
    open spec fn sub_spec(self, rhs: &'b Rg) -> Rg { rg_sub(*self, *rhs) }
}
impl<'a, 'b> core::ops::Sub<&'b Rg> for &'a Rg {
    type Output = Rg;
    #[verifier::external_body]
    fn sub(self, rhs: &'b Rg) -> (r: Rg) { unimplemented!() }
}
impl<'a, 'b> vstd::std_specs::ops::MulSpecImpl<&'b Rg> for &'a Rg {
    open spec fn obeys_mul_spec() -> bool { true }
    open spec fn mul_req(self, rhs: &'b Rg) -> bool { true }
    open spec fn mul_spec(self, rhs: &'b Rg) -> Rg { rg_mul(*self, *rhs) }
}
impl<'a, 'b> core::ops::Mul<&'b Rg> for &'a Rg {
    type Output = Rg;
    #[verifier::external_body]
    fn mul(self, rhs: &'b Rg) -> (r: Rg) { unimplemented!() }
}
/// division is total at run time (f64: inf/NaN for a zero divisor); its result is only characterised for invertible divisors
impl<'a, 'b> vstd::std_specs::ops::DivSpecImpl<&'b Rg> for &'a Rg {
    open spec fn obeys_div_spec() -> bool { true }
    open spec fn div_req(self, rhs: &'b Rg) -> bool { true }
    open spec fn div_spec(self, rhs: &'b Rg) -> Rg { rg_div(*self, *rhs) }
}
impl<'a, 'b> core::ops::Div<&'b Rg> for &'a Rg {
    type Output = Rg;
    #[verifier::external_body]
    fn div(self, rhs: &'b Rg) -> (r: Rg) { unimplemented!() }
}
}
pub use ring_shim::*;
