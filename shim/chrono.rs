// ---------------------------------------------------------------------------------------------
// shim/chrono.rs -- ASSUMED contracts on the `chrono` API used by rateslib (tier A).
// Every `external_body` / `axiom_` item below is part of the trusted base and is listed in the
// evidence of each run.  Facts marked [K] are validated against the real chrono crate by the Kani
// harnesses in /verif/kani/src/chrono_facts.rs for all dates 1970-01-01 .. 2200-12-31.
//
// Model: a NaiveDateTime / NaiveDate is viewed as its day number (days since 1970-01-01).
// ASSUMPTION (midnight): every NaiveDateTime handled by the crate has time 00:00:00 (the crate only
// builds them through from_ymd + (0,0,0)); `==`/`<=` are therefore comparisons of day numbers.
// ---------------------------------------------------------------------------------------------

pub mod chrono_shim {
use vstd::prelude::*;

pub open spec fn cal_is_leap(y: int) -> bool {
    y % 4 == 0 && (y % 100 != 0 || y % 400 == 0)
}

pub open spec fn cal_dim(y: int, m: int) -> int {
    if m == 2 { if cal_is_leap(y) { 29 } else { 28 } }
    else if m == 4 || m == 6 || m == 9 || m == 11 { 30 }
    else { 31 }
}

pub open spec fn cal_valid(y: int, m: int, d: int) -> bool {
    1 <= m <= 12 && 1 <= d <= cal_dim(y, m)
}

/// chrono's representable years (NaiveDate::MIN.year() ..= NaiveDate::MAX.year()) [K]
pub open spec fn chrono_year_ok(y: int) -> bool { -262143 <= y <= 262142 }

/// day numbers of NaiveDate::MIN / NaiveDate::MAX [K]
pub open spec fn chrono_day_ok(z: int) -> bool { -96465293 <= z <= 95026236 }

/// Monday = 0 .. Sunday = 6; 1970-01-01 (day 0) is a Thursday. [K]
pub open spec fn cal_wd(z: int) -> int { (z + 3) % 7 }

/// days-from-civil and its inverse: uninterpreted, characterised by the Gregorian axioms below.
pub uninterp spec fn cal_dfc(y: int, m: int, d: int) -> int;
pub uninterp spec fn cal_y(z: int) -> int;
pub uninterp spec fn cal_m(z: int) -> int;
pub uninterp spec fn cal_d(z: int) -> int;

/// month index: months since year 0
pub open spec fn cal_mi(z: int) -> int { cal_y(z) * 12 + cal_m(z) - 1 }

pub open spec fn cal_same_month(a: int, b: int) -> bool { cal_y(a) == cal_y(b) && cal_m(a) == cal_m(b) }

// Gregorian axioms. Together with cal_dfc(1970,1,1) == 0 they determine cal_dfc uniquely (by
// induction over months), so they have the proleptic Gregorian calendar as a model. [K each]
#[verifier::external_body]
pub broadcast proof fn axiom_cal_roundtrip_ymd(y: int, m: int, d: int)
    requires cal_valid(y, m, d),
    ensures
        cal_y(#[trigger] cal_dfc(y, m, d)) == y,
        cal_m(cal_dfc(y, m, d)) == m,
        cal_d(cal_dfc(y, m, d)) == d,
{ }

#[verifier::external_body]
pub broadcast proof fn axiom_cal_roundtrip_day(z: int)
    ensures
        cal_valid(#[trigger] cal_y(z), cal_m(z), cal_d(z)),
        cal_dfc(cal_y(z), cal_m(z), cal_d(z)) == z,
{ }

#[verifier::external_body]
pub broadcast proof fn axiom_cal_day_in_month(y: int, m: int, d: int)
    requires cal_valid(y, m, d),
    ensures #[trigger] cal_dfc(y, m, d) == cal_dfc(y, m, 1) + d - 1,
{ }

#[verifier::external_body]
pub proof fn axiom_cal_next_month(y: int, m: int)
    requires 1 <= m <= 12,
    ensures
        m < 12 ==> cal_dfc(y, m + 1, 1) == cal_dfc(y, m, 1) + cal_dim(y, m),
        m == 12 ==> cal_dfc(y + 1, 1, 1) == cal_dfc(y, 12, 1) + 31,
{ }

#[verifier::external_body]
pub proof fn axiom_cal_epoch()
    ensures cal_dfc(1970, 1, 1) == 0,
{ }

/// chrono_day_ok is exactly the set of day numbers of representable years. [K on the boundary]
#[verifier::external_body]
pub proof fn axiom_cal_day_ok_iff_year_ok(z: int)
    ensures chrono_day_ok(z) <==> chrono_year_ok(cal_y(z)),
{ }

pub broadcast group group_cal_axioms {
    axiom_cal_roundtrip_ymd,
    axiom_cal_roundtrip_day,
    axiom_cal_day_in_month,
}

// ------------------------------------------------------------------ types

#[verifier::external_body]
pub struct NaiveDateTime { _p: i64 }

impl Clone for NaiveDateTime {
    #[verifier::external_body]
    fn clone(&self) -> (r: Self) ensures r == *self { unimplemented!() }
}
impl Copy for NaiveDateTime {}

impl View for NaiveDateTime {
    type V = int;
    uninterp spec fn view(&self) -> int;
}

/// every value of the type is representable [K: NaiveDate::MIN/MAX]
#[verifier::external_body]
pub broadcast proof fn axiom_ndt_range(d: NaiveDateTime)
    ensures chrono_day_ok(#[trigger] d@),
{ }

/// extensionality under the midnight assumption
#[verifier::external_body]
pub broadcast proof fn axiom_ndt_ext(a: NaiveDateTime, b: NaiveDateTime)
    requires #[trigger] a@ == #[trigger] b@,
    ensures a == b,
{ }

/// the NaiveDateTime with a given day number (total as a spec function; meaningful when chrono_day_ok)
pub uninterp spec fn ndt_of(z: int) -> NaiveDateTime;

#[verifier::external_body]
pub broadcast proof fn axiom_ndt_of(z: int)
    requires chrono_day_ok(z),
    ensures (#[trigger] ndt_of(z))@ == z,
{ }

#[verifier::external_body]
pub struct NaiveDate { _p: i32 }

impl Clone for NaiveDate {
    #[verifier::external_body]
    fn clone(&self) -> (r: Self) ensures r == *self { unimplemented!() }
}
impl Copy for NaiveDate {}

impl View for NaiveDate {
    type V = int;
    uninterp spec fn view(&self) -> int;
}

#[verifier::external_body]
pub struct NaiveTime { _p: u32 }

pub uninterp spec fn naive_time_is_midnight(t: NaiveTime) -> bool;

#[verifier::external_body]
pub struct Days { _p: u64 }

impl View for Days {
    type V = int;
    uninterp spec fn view(&self) -> int;
}

impl Days {
    #[verifier::external_body]
    pub fn new(n: u64) -> (r: Days)
        ensures r@ == n as int,
    { unimplemented!() }
}

#[derive(Clone, Copy, PartialEq, Eq)]
pub enum Weekday { Mon, Tue, Wed, Thu, Fri, Sat, Sun }

pub open spec fn weekday_num(w: Weekday) -> int {
    match w {
        Weekday::Mon => 0, Weekday::Tue => 1, Weekday::Wed => 2, Weekday::Thu => 3,
        Weekday::Fri => 4, Weekday::Sat => 5, Weekday::Sun => 6,
    }
}

// ------------------------------------------------------------------ NaiveDate

impl NaiveDate {
    /// [K] Some iff the civil date exists in a representable year; its day number is cal_dfc.
    #[verifier::external_body]
    pub fn from_ymd_opt(year: i32, month: u32, day: u32) -> (r: Option<NaiveDate>)
        ensures
            r.is_some() <==> (cal_valid(year as int, month as int, day as int) && chrono_year_ok(year as int)),
            r.is_some() ==> r.unwrap()@ == cal_dfc(year as int, month as int, day as int),
    { unimplemented!() }

    /// [K for (0,0,0)] only the midnight case is specified.
    #[verifier::external_body]
    pub fn and_hms_opt(&self, hour: u32, min: u32, sec: u32) -> (r: Option<NaiveDateTime>)
        ensures
            (hour == 0 && min == 0 && sec == 0) ==> (r.is_some() && r.unwrap()@ == self@),
    { unimplemented!() }
}

impl NaiveTime {
    #[verifier::external_body]
    pub fn from_hms_opt(hour: u32, min: u32, sec: u32) -> (r: Option<NaiveTime>)
        ensures
            (hour == 0 && min == 0 && sec == 0) ==> (r.is_some() && naive_time_is_midnight(r.unwrap())),
    { unimplemented!() }
}

// comparisons of Option<NaiveDate> with None (used by get_eom: `date == None`)
impl vstd::std_specs::cmp::PartialEqSpecImpl for NaiveDate {
    open spec fn obeys_eq_spec() -> bool { true }
    open spec fn eq_spec(&self, other: &NaiveDate) -> bool { self@ == other@ }
}
impl PartialEq for NaiveDate {
    #[verifier::external_body]
    fn eq(&self, other: &NaiveDate) -> (r: bool) ensures r == (self@ == other@) { unimplemented!() }
}

// ------------------------------------------------------------------ NaiveDateTime

impl NaiveDateTime {
    #[verifier::external_body]
    pub fn new(date: NaiveDate, time: NaiveTime) -> (r: NaiveDateTime)
        requires naive_time_is_midnight(time),
        ensures r@ == date@,
    { unimplemented!() }

    /// [K] Datelike accessors
    #[verifier::external_body]
    pub fn year(&self) -> (r: i32) ensures r as int == cal_y(self@) { unimplemented!() }
    #[verifier::external_body]
    pub fn month(&self) -> (r: u32) ensures r as int == cal_m(self@), 1 <= r <= 12 { unimplemented!() }
    #[verifier::external_body]
    pub fn day(&self) -> (r: u32) ensures r as int == cal_d(self@), 1 <= r <= 31 { unimplemented!() }
    #[verifier::external_body]
    pub fn weekday(&self) -> (r: Weekday) ensures weekday_num(r) == cal_wd(self@) { unimplemented!() }
}

/// `date.and_utc().timestamp()`: seconds since the epoch (midnight assumption: 86400 * day number) [K]
#[verifier::external_body]
pub struct DateTimeUtc { _p: i64 }
impl View for DateTimeUtc { type V = int; uninterp spec fn view(&self) -> int; }
impl NaiveDateTime {
    #[verifier::external_body]
    pub fn and_utc(&self) -> (r: DateTimeUtc) ensures r@ == self@ { unimplemented!() }
}
impl DateTimeUtc {
    #[verifier::external_body]
    pub fn timestamp(&self) -> (r: i64) ensures r as int == 86400 * self@ { unimplemented!() }
}

impl vstd::std_specs::cmp::PartialEqSpecImpl for NaiveDateTime {
    open spec fn obeys_eq_spec() -> bool { true }
    open spec fn eq_spec(&self, other: &NaiveDateTime) -> bool { self@ == other@ }
}
impl PartialEq for NaiveDateTime {
    #[verifier::external_body]
    fn eq(&self, other: &NaiveDateTime) -> (r: bool) ensures r == (self@ == other@) { unimplemented!() }
}

impl vstd::std_specs::cmp::PartialOrdSpecImpl for NaiveDateTime {
    open spec fn obeys_partial_cmp_spec() -> bool { true }
    open spec fn partial_cmp_spec(&self, other: &NaiveDateTime) -> Option<core::cmp::Ordering> {
        if self@ < other@ { Some(core::cmp::Ordering::Less) }
        else if self@ == other@ { Some(core::cmp::Ordering::Equal) }
        else { Some(core::cmp::Ordering::Greater) }
    }
}
impl PartialOrd for NaiveDateTime {
    #[verifier::external_body]
    fn partial_cmp(&self, other: &NaiveDateTime) -> (r: Option<core::cmp::Ordering>) { unimplemented!() }
}

/// `date + Days` panics in chrono when the result is not representable: that is the precondition. [K]
impl vstd::std_specs::ops::AddSpecImpl<Days> for NaiveDateTime {
    open spec fn obeys_add_spec() -> bool { true }
    open spec fn add_req(self, rhs: Days) -> bool { chrono_day_ok(self@ + rhs@) }
    open spec fn add_spec(self, rhs: Days) -> NaiveDateTime { ndt_of(self@ + rhs@) }
}
impl core::ops::Add<Days> for NaiveDateTime {
    type Output = NaiveDateTime;
    #[verifier::external_body]
    fn add(self, rhs: Days) -> (r: NaiveDateTime) { unimplemented!() }
}
impl vstd::std_specs::ops::SubSpecImpl<Days> for NaiveDateTime {
    open spec fn obeys_sub_spec() -> bool { true }
    open spec fn sub_req(self, rhs: Days) -> bool { chrono_day_ok(self@ - rhs@) }
    open spec fn sub_spec(self, rhs: Days) -> NaiveDateTime { ndt_of(self@ - rhs@) }
}
impl core::ops::Sub<Days> for NaiveDateTime {
    type Output = NaiveDateTime;
    #[verifier::external_body]
    fn sub(self, rhs: Days) -> (r: NaiveDateTime) { unimplemented!() }
}

pub broadcast group group_chrono {
    axiom_ndt_range,
    axiom_ndt_of,
    axiom_ndt_ext,
}

} // mod chrono_shim
pub use chrono_shim::*;
