// ---------------------------------------------------------------------------------------------
// shim/collections.rs -- ASSUMED contracts (tier A) on String, indexmap::IndexSet<String>, Arc and
// the std iterator adapters used by the dual-number code.
//
// * `String` is an abstract name: its view is an uninterpreted identity (`int`), equality is equality
//   of views.  Nothing about characters is modelled.
// * `IndexSet<String>`: view `Seq<String>` WITHOUT duplicates (axiom).  `from_iter` keeps the first
//   occurrence of each element in order; `union` yields self's elements then other's new ones.
// * iterators are specified EAGERLY through `f.requires` / `f.ensures` (sound only for closures
//   without side effects -- every closure in the extracted code is pure: no assignment, no `&mut`).
//   `all`/`any` short-circuit in std; the eager spec demands the closure's precondition on every
//   element, which is stronger.
// ---------------------------------------------------------------------------------------------
pub mod coll_shim {
use vstd::prelude::*;

#[verifier::external_body]
pub struct String { _p: u8 }

impl View for String {
    type V = int;
    uninterp spec fn view(&self) -> int;
}

#[verifier::external_body]
pub broadcast proof fn axiom_string_ext(a: String, b: String)
    requires #[trigger] a@ == #[trigger] b@,
    ensures a == b,
{ }

impl Clone for String {
    #[verifier::external_body]
    fn clone(&self) -> (r: Self) ensures r == *self { unimplemented!() }
}

impl vstd::std_specs::cmp::PartialEqSpecImpl for String {
    open spec fn obeys_eq_spec() -> bool { true }
    open spec fn eq_spec(&self, other: &String) -> bool { *self == *other }
}
impl PartialEq for String {
    #[verifier::external_body]
    fn eq(&self, other: &String) -> (r: bool) { unimplemented!() }
}

// ------------------------------------------------------------------ IndexSet<String>

#[verifier::external_body]
#[verifier::reject_recursive_types(T)]
pub struct IndexSet<T> { _p: core::marker::PhantomData<T> }

impl<T> View for IndexSet<T> {
    type V = Seq<T>;
    uninterp spec fn view(&self) -> Seq<T>;
}

/// every IndexSet value is duplicate free (type invariant of indexmap)
#[verifier::external_body]
pub broadcast proof fn axiom_indexset_nodup<T>(s: IndexSet<T>)
    ensures (#[trigger] s@).no_duplicates(),
{ }

/// two IndexSets with the same elements in the same order are equal (indexmap's PartialEq is order-insensitive,
/// spec equality here is the finer sequence equality)
#[verifier::external_body]
pub broadcast proof fn axiom_indexset_ext<T>(a: IndexSet<T>, b: IndexSet<T>)
    requires #[trigger] a@ == #[trigger] b@,
    ensures a == b,
{ }

/// first-occurrence de-duplication of a sequence
pub open spec fn dedup<T>(s: Seq<T>) -> Seq<T>
    decreases s.len(),
{
    if s.len() == 0 { Seq::<T>::empty() }
    else {
        let d = dedup(s.drop_last());
        if d.contains(s.last()) { d } else { d.push(s.last()) }
    }
}

/// a then the elements of b not in a, in b's order
pub open spec fn seq_union<T>(a: Seq<T>, b: Seq<T>) -> Seq<T>
    decreases b.len(),
{
    if b.len() == 0 { a }
    else {
        let u = seq_union(a, b.drop_last());
        if u.contains(b.last()) { u } else { u.push(b.last()) }
    }
}

/// a sequence of references read as the sequence of their referents
pub open spec fn derefs<T>(s: Seq<&T>) -> Seq<T> { s.map_values(|x: &T| *x) }

impl IndexSet<String> {
    #[verifier::external_body]
    pub fn len(&self) -> (r: usize) ensures r == self@.len() { unimplemented!() }

    #[verifier::external_body]
    pub fn get_index_of(&self, v: &String) -> (r: Option<usize>)
        ensures
            r.is_some() ==> r.unwrap() < self@.len() && self@[r.unwrap() as int] == *v,
            r.is_none() ==> !self@.contains(*v),
    { unimplemented!() }

    #[verifier::external_body]
    pub fn contains(&self, v: &String) -> (r: bool) ensures r == self@.contains(*v) { unimplemented!() }

    #[verifier::external_body]
    pub fn iter(&self) -> (r: VxIter<&String>)
        ensures derefs(r.seq()) == self@, r.seq().len() == self@.len(), forall|i: int| #![trigger r.seq()[i]] #![trigger self@[i]] 0 <= i < self@.len() ==> *(r.seq()[i]) == self@[i],
    { unimplemented!() }

    /// elements of self, then those of other not in self
    #[verifier::external_body]
    pub fn union(&self, other: &IndexSet<String>) -> (r: VxIter<&String>)
        ensures
            derefs(r.seq()) == seq_union(self@, other@),
            r.seq().len() == seq_union(self@, other@).len(),
            forall|i: int| 0 <= i < r.seq().len() ==> *(#[trigger] r.seq()[i]) == seq_union(self@, other@)[i],
    { unimplemented!() }

    /// IndexSet::from_iter: first occurrences, in order
    #[verifier::external_body]
    pub fn from_iter<I: VxIntoSeq<String>>(it: I) -> (r: IndexSet<String>)
        ensures r@ == dedup(it.into_seq()),
    { unimplemented!() }
}

/// indexmap's `==` on IndexSet: same elements, order ignored
impl vstd::std_specs::cmp::PartialEqSpecImpl for IndexSet<String> {
    open spec fn obeys_eq_spec() -> bool { true }
    open spec fn eq_spec(&self, other: &IndexSet<String>) -> bool {
        self@.len() == other@.len() && forall|x: String| self@.contains(x) <==> other@.contains(x)
    }
}
impl PartialEq for IndexSet<String> {
    #[verifier::external_body]
    fn eq(&self, other: &IndexSet<String>) -> (r: bool) { unimplemented!() }
}

/// things IndexSet::from_iter / Vec::from_iter are called with
pub trait VxIntoSeq<T> {
    spec fn into_seq(&self) -> Seq<T>;
}
impl<T> VxIntoSeq<T> for Vec<T> {
    open spec fn into_seq(&self) -> Seq<T> { self@ }
}
impl<T> VxIntoSeq<T> for VxIter<T> {
    open spec fn into_seq(&self) -> Seq<T> { self.seq() }
}

// ------------------------------------------------------------------ IndexMap<i64, V> (curve nodes)

#[verifier::external_body]
#[verifier::reject_recursive_types(K)]
#[verifier::reject_recursive_types(V)]
pub struct IndexMap<K, V> { _p: core::marker::PhantomData<(K, V)> }

impl<K, V> IndexMap<K, V> {
    /// insertion-ordered (key, value) pairs; keys are distinct (type invariant of indexmap)
    pub uninterp spec fn kv(&self) -> Seq<(K, V)>;
}

pub open spec fn keys_of<K, V>(s: Seq<(K, V)>) -> Seq<K> { s.map_values(|p: (K, V)| p.0) }

/// pairwise distinct keys
pub open spec fn kv_distinct<K, V>(s: Seq<(K, V)>) -> bool { forall|a: int, b: int| 0 <= a < b < s.len() ==> (#[trigger] s[a]).0 != (#[trigger] s[b]).0 }

pub open spec fn sorted_i64(s: Seq<i64>) -> bool { forall|i: int, j: int| 0 <= i < j < s.len() ==> s[i] < s[j] }

impl<V> IndexMap<i64, V> {
    #[verifier::external_body]
    pub fn len(&self) -> (r: usize) ensures r == self.kv().len() { unimplemented!() }

    #[verifier::external_body]
    pub fn get_index(&self, i: usize) -> (r: Option<(&i64, &V)>)
        ensures
            r.is_some() <==> i < self.kv().len(),
            r.is_some() ==> *r.unwrap().0 == self.kv()[i as int].0 && *r.unwrap().1 == self.kv()[i as int].1,
    { unimplemented!() }

    #[verifier::external_body]
    pub fn first(&self) -> (r: Option<(&i64, &V)>)
        ensures
            r.is_some() <==> self.kv().len() > 0,
            r.is_some() ==> *r.unwrap().0 == self.kv()[0].0 && *r.unwrap().1 == self.kv()[0].1,
    { unimplemented!() }

    #[verifier::external_body]
    pub fn keys(&self) -> (r: VxIter<&i64>)
        ensures derefs(r.seq()) == keys_of(self.kv()), r.seq().len() == self.kv().len(),
            forall|i: int| #![trigger r.seq()[i]] #![trigger self.kv()[i]] 0 <= i < self.kv().len() ==> *(r.seq()[i]) == self.kv()[i].0,
    { unimplemented!() }

    /// `(&map).into_iter()`: the pairs in order
    #[verifier::external_body]
    pub fn into_iter(&self) -> (r: VxIter<(&i64, &V)>)
        ensures r.seq().len() == self.kv().len(),
            forall|i: int| #![trigger r.seq()[i]] #![trigger self.kv()[i]] 0 <= i < self.kv().len() ==> *(r.seq()[i].0) == self.kv()[i].0 && *(r.seq()[i].1) == self.kv()[i].1,
    { unimplemented!() }

    /// IndexMap::from_iter on pairs with distinct keys: the pairs in order
    #[verifier::external_body]
    pub fn from_iter(it: VxIter<(i64, V)>) -> (r: IndexMap<i64, V>)
        requires kv_distinct(it.seq()),
        ensures r.kv() == it.seq(),
    { unimplemented!() }

    /// sort_keys: the same (key, value) pairs, keys strictly increasing (keys are distinct)
    #[verifier::external_body]
    pub fn sort_keys(&mut self)
        ensures
            final(self).kv().len() == old(self).kv().len(),
            final(self).kv().to_multiset() == old(self).kv().to_multiset(),
            sorted_i64(keys_of(final(self).kv())),
    { unimplemented!() }
}

impl<'a> VxIter<&'a i64> {
    #[verifier::external_body]
    pub fn cloned(self) -> (r: VxIter<i64>)
        ensures r.seq() == derefs(self.seq()), r.seq().len() == self.seq().len(),
    { unimplemented!() }
}

// ------------------------------------------------------------------ eager iterator

#[verifier::external_body]
#[verifier::reject_recursive_types(T)]
pub struct VxIter<T> { _p: core::marker::PhantomData<T> }

impl<T> VxIter<T> {
    pub uninterp spec fn seq(&self) -> Seq<T>;

    #[verifier::external_body]
    pub fn zip<U>(self, other: VxIter<U>) -> (r: VxIter<(T, U)>)
        ensures
            r.seq().len() == (if self.seq().len() <= other.seq().len() { self.seq().len() } else { other.seq().len() }),
            forall|i: int| #![trigger r.seq()[i]] #![trigger self.seq()[i]] #![trigger other.seq()[i]] 0 <= i < r.seq().len() ==> r.seq()[i] == (self.seq()[i], other.seq()[i]),
    { unimplemented!() }

    /// itertools::Itertools::cartesian_product (row major: self is the slow index)
    #[verifier::external_body]
    pub fn cartesian_product<U>(self, other: VxIter<U>) -> (r: VxIter<(T, U)>)
        ensures
            r.seq().len() == self.seq().len() * other.seq().len(),
            forall|i: int, j: int| 0 <= i < self.seq().len() && 0 <= j < other.seq().len()
                ==> #[trigger] r.seq()[i * other.seq().len() + j] == (self.seq()[i], other.seq()[j]),
            forall|k: int| 0 <= k < r.seq().len() && other.seq().len() > 0
                ==> #[trigger] r.seq()[k] == (self.seq()[k / (other.seq().len() as int)], other.seq()[k % (other.seq().len() as int)]),
    { unimplemented!() }

    #[verifier::external_body]
    pub fn enumerate(self) -> (r: VxIter<(usize, T)>)
        ensures
            r.seq().len() == self.seq().len(),
            forall|i: int| #![trigger r.seq()[i]] #![trigger self.seq()[i]] 0 <= i < r.seq().len() ==> r.seq()[i] == (i as usize, self.seq()[i]),
    { unimplemented!() }

    #[verifier::external_body]
    pub fn all<F: Fn(T) -> bool>(self, f: F) -> (r: bool)
        requires forall|i: int| 0 <= i < self.seq().len() ==> f.requires((#[trigger] self.seq()[i],)),
        ensures
            r ==> forall|i: int| 0 <= i < self.seq().len() ==> f.ensures((#[trigger] self.seq()[i],), true),
            !r ==> exists|i: int| 0 <= i < self.seq().len() && f.ensures((#[trigger] self.seq()[i],), false),
    { unimplemented!() }

    #[verifier::external_body]
    pub fn any<F: Fn(T) -> bool>(self, f: F) -> (r: bool)
        requires forall|i: int| 0 <= i < self.seq().len() ==> f.requires((#[trigger] self.seq()[i],)),
        ensures
            r ==> exists|i: int| 0 <= i < self.seq().len() && f.ensures((#[trigger] self.seq()[i],), true),
            !r ==> forall|i: int| 0 <= i < self.seq().len() ==> f.ensures((#[trigger] self.seq()[i],), false),
    { unimplemented!() }

    #[verifier::external_body]
    pub fn map<B, F: Fn(T) -> B>(self, f: F) -> (r: VxIter<B>)
        requires forall|i: int| 0 <= i < self.seq().len() ==> f.requires((#[trigger] self.seq()[i],)),
        ensures
            r.seq().len() == self.seq().len(),
            forall|i: int| #![trigger r.seq()[i]] #![trigger self.seq()[i]] 0 <= i < self.seq().len() ==> f.ensures((self.seq()[i],), r.seq()[i]),
    { unimplemented!() }

    /// Iterator::fold, eagerly: some chain of accumulators acc[0] = init, f(acc[i], seq[i]) = acc[i+1], result acc[n]
    #[verifier::external_body]
    pub fn fold<B, F: Fn(B, T) -> B>(self, init: B, f: F) -> (r: B)
        requires forall|acc: B, i: int| 0 <= i < self.seq().len() ==> #[trigger] f.requires((acc, self.seq()[i])),
        ensures exists|accs: Seq<B>| accs.len() == self.seq().len() + 1 && accs[0] == init && r == accs[self.seq().len() as int]
            && (forall|i: int| 0 <= i < self.seq().len() ==> f.ensures((#[trigger] accs[i], self.seq()[i]), accs[i + 1])),
    { unimplemented!() }

    #[verifier::external_body]
    pub fn collect(self) -> (r: Vec<T>)
        ensures r@ == self.seq(),
    { unimplemented!() }
}

/// `v.into_iter()` on a Vec, as an eager iterator (declared substitution)
#[verifier::external_body]
pub fn vx_vec_into_iter<T>(v: Vec<T>) -> (r: VxIter<T>)
    ensures r.seq() == v@,
{ unimplemented!() }

/// R10c (owned items): move item i out of the collected items; slot i is unspecified afterwards and never read again
#[verifier::external_body]
pub fn vx_take<T>(v: &mut Vec<T>, i: usize) -> (r: T)
    requires i < old(v)@.len(),
    ensures r == old(v)@[i as int], final(v)@.len() == old(v)@.len(), forall|j: int| 0 <= j < old(v)@.len() && j != i ==> #[trigger] final(v)@[j] == old(v)@[j],
{ unimplemented!() }

/// `v.iter()` on a Vec, as an eager iterator (used through an explicit substitution, listed in the evidence)
#[verifier::external_body]
pub fn vx_vec_iter<T>(v: &Vec<T>) -> (r: VxIter<&T>)
    ensures derefs(r.seq()) == v@, r.seq().len() == v@.len(), forall|i: int| #![trigger r.seq()[i]] #![trigger v@[i]] 0 <= i < v@.len() ==> *(r.seq()[i]) == v@[i],
{ unimplemented!() }

impl<'a> VxIter<&'a String> {
    #[verifier::external_body]
    pub fn cloned(self) -> (r: VxIter<String>)
        ensures
            r.seq() == derefs(self.seq()),
            r.seq().len() == self.seq().len(),
            forall|i: int| #![trigger r.seq()[i]] #![trigger self.seq()[i]] 0 <= i < r.seq().len() ==> r.seq()[i] == *self.seq()[i],
    { unimplemented!() }
}

impl<'a> VxIter<&'a super::r64_shim::R64> {
    /// Iterator::eq on two iterators of f64 references: same length and element-wise equal values
    #[verifier::external_body]
    pub fn eq<'b>(self, other: VxIter<&'b super::r64_shim::R64>) -> (r: bool)
        ensures r == (self.seq().len() == other.seq().len()
            && forall|i: int| 0 <= i < self.seq().len() ==> (#[trigger] self.seq()[i])@ == other.seq()[i]@),
    { unimplemented!() }
}

pub broadcast group group_coll {
    axiom_string_ext,
    axiom_indexset_nodup,
    axiom_indexset_ext,
}

} // mod coll_shim
pub use coll_shim::*;

/// Arc::ptr_eq: an uninterpreted boolean that, when true, implies equal contents -- so every proof
/// must hold for shared and for unshared storage.
pub assume_specification<T: ?Sized, A: core::alloc::Allocator> [ std::sync::Arc::<T, A>::ptr_eq ](a: &std::sync::Arc<T, A>, b: &std::sync::Arc<T, A>) -> (r: bool)
    ensures r ==> *a == *b,
;
