// ---------------------------------------------------------------------------------------------
// spec/linalg.rs -- sums and inner products over the abstract ring `Rg` (shim/ring.rs) and the
// lemmas Gaussian elimination needs.  Everything here is PROVED from the ring axioms (explicit calls).
// ---------------------------------------------------------------------------------------------
pub mod linalg_spec {
use vstd::prelude::*;
use super::ring_shim::*;

/// left fold from zero: ((0 + s0) + s1) + ...   (what `Sum` does for f64 / Dual / Dual2)
pub open spec fn rsum(s: Seq<Rg>) -> Rg
    decreases s.len(),
{
    if s.len() == 0 { rg_zero() } else { rg_add(rsum(s.drop_last()), s.last()) }
}

pub open spec fn zipmul(u: Seq<Rg>, y: Seq<Rg>) -> Seq<Rg> { Seq::new(u.len(), |i: int| rg_mul(u[i], y[i])) }

/// inner product
pub open spec fn dot(u: Seq<Rg>, y: Seq<Rg>) -> Rg { rsum(zipmul(u, y)) }

// ------------------------------------------------------------------ derived ring identities
pub proof fn rg_add_zero_l(a: Rg) ensures rg_add(rg_zero(), a) == a { ax_add_comm(rg_zero(), a); ax_add_zero(a); }
pub proof fn rg_mul_zero_l(a: Rg) ensures rg_mul(rg_zero(), a) == rg_zero() { ax_mul_comm(rg_zero(), a); ax_mul_zero(a); }
pub proof fn rg_distrib_r(a: Rg, b: Rg, c: Rg) ensures rg_mul(rg_add(a, b), c) == rg_add(rg_mul(a, c), rg_mul(b, c)) {
    ax_mul_comm(rg_add(a, b), c); ax_distrib(c, a, b); ax_mul_comm(c, a); ax_mul_comm(c, b);
}
/// (a + b) + (c + d) == (a + c) + (b + d)
pub proof fn rg_add4(a: Rg, b: Rg, c: Rg, d: Rg) ensures rg_add(rg_add(a, b), rg_add(c, d)) == rg_add(rg_add(a, c), rg_add(b, d)) {
    ax_add_assoc(a, b, rg_add(c, d));
    ax_add_assoc(b, c, d);
    ax_add_comm(b, c);
    ax_add_assoc(c, b, d);
    ax_add_assoc(a, c, rg_add(b, d));
}
/// (P + s*Q) + (a + s*b)*c == (P + a*c) + s*(Q + b*c)
pub proof fn rg_id_lincomb(p: Rg, s: Rg, q: Rg, a: Rg, b: Rg, c: Rg)
    ensures rg_add(rg_add(p, rg_mul(s, q)), rg_mul(rg_add(a, rg_mul(s, b)), c)) == rg_add(rg_add(p, rg_mul(a, c)), rg_mul(s, rg_add(q, rg_mul(b, c)))),
{
    rg_distrib_r(a, rg_mul(s, b), c);
    ax_mul_assoc(s, b, c);
    ax_distrib(s, q, rg_mul(b, c));
    rg_add4(p, rg_mul(s, q), rg_mul(a, c), rg_mul(s, rg_mul(b, c)));
}

// ------------------------------------------------------------------ inner product
pub proof fn lemma_dot_empty(u: Seq<Rg>, y: Seq<Rg>)
    requires u.len() == 0,
    ensures dot(u, y) == rg_zero(),
{ }

pub proof fn lemma_dot_unfold(u: Seq<Rg>, y: Seq<Rg>)
    requires u.len() == y.len(), u.len() > 0,
    ensures dot(u, y) == rg_add(dot(u.drop_last(), y.drop_last()), rg_mul(u.last(), y.last())),
{
    assert(zipmul(u, y).drop_last() =~= zipmul(u.drop_last(), y.drop_last()));
}

/// w = u + s*v (pointwise)  ==>  <w, y> = <u, y> + s*<v, y>
pub proof fn lemma_dot_lincomb(u: Seq<Rg>, v: Seq<Rg>, w: Seq<Rg>, y: Seq<Rg>, s: Rg)
    requires
        u.len() == v.len(), u.len() == w.len(), u.len() == y.len(),
        forall|m: int| 0 <= m < u.len() ==> #[trigger] w[m] == rg_add(u[m], rg_mul(s, v[m])),
    ensures dot(w, y) == rg_add(dot(u, y), rg_mul(s, dot(v, y))),
    decreases u.len(),
{
    if u.len() == 0 {
        ax_mul_zero(s);
        ax_add_zero(rg_zero());
    } else {
        lemma_dot_unfold(u, y);
        lemma_dot_unfold(v, y);
        lemma_dot_unfold(w, y);
        lemma_dot_lincomb(u.drop_last(), v.drop_last(), w.drop_last(), y.drop_last(), s);
        assert(w.last() == rg_add(u.last(), rg_mul(s, v.last())));
        rg_id_lincomb(dot(u.drop_last(), y.drop_last()), s, dot(v.drop_last(), y.drop_last()), u.last(), v.last(), y.last());
    }
}

pub proof fn lemma_dot_zeros(u: Seq<Rg>, y: Seq<Rg>)
    requires u.len() == y.len(), forall|m: int| 0 <= m < u.len() ==> #[trigger] u[m] == rg_zero(),
    ensures dot(u, y) == rg_zero(),
    decreases u.len(),
{
    if u.len() > 0 {
        lemma_dot_unfold(u, y);
        lemma_dot_zeros(u.drop_last(), y.drop_last());
        assert(u.last() == rg_zero());
        rg_mul_zero_l(y.last());
        ax_add_zero(rg_zero());
    }
}

/// a zero prefix of the left operand does not contribute
pub proof fn lemma_dot_zero_prefix(u: Seq<Rg>, y: Seq<Rg>, k: int)
    requires u.len() == y.len(), 0 <= k <= u.len(), forall|m: int| 0 <= m < k ==> #[trigger] u[m] == rg_zero(),
    ensures dot(u, y) == dot(u.subrange(k, u.len() as int), y.subrange(k, y.len() as int)),
    decreases u.len(),
{
    let n = u.len() as int;
    if n == k {
        lemma_dot_zeros(u, y);
        lemma_dot_empty(u.subrange(k, n), y.subrange(k, n));
    } else {
        lemma_dot_unfold(u, y);
        lemma_dot_zero_prefix(u.drop_last(), y.drop_last(), k);
        let ut = u.subrange(k, n);
        let yt = y.subrange(k, n);
        lemma_dot_unfold(ut, yt);
        assert(ut.drop_last() =~= u.drop_last().subrange(k, n - 1));
        assert(yt.drop_last() =~= y.drop_last().subrange(k, n - 1));
        assert(ut.last() == u.last() && yt.last() == y.last());
    }
}

/// peel the FIRST element
pub proof fn lemma_dot_cons(u: Seq<Rg>, y: Seq<Rg>)
    requires u.len() == y.len(), u.len() > 0,
    ensures dot(u, y) == rg_add(rg_mul(u[0], y[0]), dot(u.subrange(1, u.len() as int), y.subrange(1, y.len() as int))),
    decreases u.len(),
{
    let n = u.len() as int;
    lemma_dot_unfold(u, y);
    if n == 1 {
        lemma_dot_empty(u.drop_last(), y.drop_last());
        lemma_dot_empty(u.subrange(1, n), y.subrange(1, n));
        rg_add_zero_l(rg_mul(u[0], y[0]));
        ax_add_zero(rg_mul(u[0], y[0]));
    } else {
        let u1 = u.drop_last();
        let y1 = y.drop_last();
        lemma_dot_cons(u1, y1);
        let ut = u.subrange(1, n);
        let yt = y.subrange(1, n);
        lemma_dot_unfold(ut, yt);
        assert(ut.drop_last() =~= u1.subrange(1, n - 1));
        assert(yt.drop_last() =~= y1.subrange(1, n - 1));
        assert(ut.last() == u.last() && yt.last() == y.last());
        ax_add_assoc(rg_mul(u[0], y[0]), dot(u1.subrange(1, n - 1), y1.subrange(1, n - 1)), rg_mul(u.last(), y.last()));
    }
}


// ------------------------------------------------------------------ cancellation (for uniqueness of solutions)
/// t + b == b  ==>  t == 0   (b has the additive inverse 0 - b)
pub proof fn rg_cancel(t: Rg, b: Rg)
    requires rg_add(t, b) == b,
    ensures t == rg_zero(),
{
    let nb = rg_sub(rg_zero(), b);
    ax_sub_add(rg_zero(), b);            // nb + b == 0
    ax_add_comm(nb, b);                  // b + nb == 0
    ax_add_assoc(t, b, nb);              // (t + b) + nb == t + (b + nb)
    ax_add_zero(t);
}
/// u * y == 0 with u invertible  ==>  y == 0
pub proof fn rg_unit_cancel(u: Rg, y: Rg)
    requires rg_mul(u, y) == rg_zero(), rg_unit(u),
    ensures y == rg_zero(),
{
    let r = rg_sdiv(1real, u);
    ax_recip(u);                         // r * u == 1
    ax_mul_assoc(r, u, y);               // (r*u)*y == r*(u*y)
    ax_mul_zero(r);
    ax_mul_comm(rg_one(), y);
    ax_mul_one(y);
}
pub proof fn lemma_dot_comm(u: Seq<Rg>, y: Seq<Rg>)
    requires u.len() == y.len(),
    ensures dot(u, y) == dot(y, u),
{
    assert forall|i: int| 0 <= i < u.len() implies #[trigger] zipmul(u, y)[i] == zipmul(y, u)[i] by { ax_mul_comm(u[i], y[i]); }
    assert(zipmul(u, y) =~= zipmul(y, u));
}
pub proof fn lemma_dot_zeros_r(u: Seq<Rg>, y: Seq<Rg>)
    requires u.len() == y.len(), forall|m: int| 0 <= m < y.len() ==> #[trigger] y[m] == rg_zero(),
    ensures dot(u, y) == rg_zero(),
{
    lemma_dot_comm(u, y);
    lemma_dot_zeros(y, u);
}
/// x = z + y pointwise  ==>  <u, x> == <u, z> + <u, y>
pub proof fn lemma_dot_add_r(u: Seq<Rg>, z: Seq<Rg>, y: Seq<Rg>, x: Seq<Rg>)
    requires u.len() == z.len(), u.len() == y.len(), u.len() == x.len(), forall|m: int| 0 <= m < u.len() ==> #[trigger] x[m] == rg_add(z[m], y[m]),
    ensures dot(u, x) == rg_add(dot(u, z), dot(u, y)),
{
    assert forall|m: int| 0 <= m < u.len() implies #[trigger] x[m] == rg_add(z[m], rg_mul(rg_one(), y[m])) by { ax_mul_comm(rg_one(), y[m]); ax_mul_one(y[m]); }
    lemma_dot_lincomb(z, y, x, u, rg_one());
    lemma_dot_comm(u, x); lemma_dot_comm(u, z); lemma_dot_comm(u, y);
    ax_mul_comm(rg_one(), dot(y, u)); ax_mul_one(dot(y, u));
}

/// the inner product only looks at the elements
pub proof fn lemma_dot_ext(u: Seq<Rg>, u2: Seq<Rg>, y: Seq<Rg>, y2: Seq<Rg>)
    requires u =~= u2, y =~= y2,
    ensures dot(u, y) == dot(u2, y2),
{ }
}
pub use linalg_spec::*;
