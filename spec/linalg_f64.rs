// ---------------------------------------------------------------------------------------------
// spec/linalg_f64.rs -- inner products of a real row with (a) a vector over the abstract module `Md`
// (shim/module.rs) and (b) a real vector, and the lemmas elimination needs.  All PROVED.
// ---------------------------------------------------------------------------------------------
pub mod linalg_f64_spec {
use vstd::prelude::*;
use super::r64_shim::*;
use super::module_shim::*;

pub open spec fn msum(s: Seq<Md>) -> Md
    decreases s.len(),
{
    if s.len() == 0 { md_zero() } else { md_add(msum(s.drop_last()), s.last()) }
}
pub open spec fn zipsmul(u: Seq<R64>, y: Seq<Md>) -> Seq<Md> { Seq::new(u.len(), |i: int| md_smul(u[i]@, y[i])) }
/// <u, y> with real coefficients u and module elements y
pub open spec fn dotm(u: Seq<R64>, y: Seq<Md>) -> Md { msum(zipsmul(u, y)) }

/// <u, y> over the reals
pub open spec fn dotr(u: Seq<R64>, y: Seq<real>) -> real
    decreases u.len(),
{
    if u.len() == 0 { 0real } else { dotr(u.drop_last(), y.drop_last()) + u.last()@ * y.last() }
}

// ------------------------------------------------------------------ module identities
pub proof fn md_add_zero_l(a: Md) ensures md_add(md_zero(), a) == a { mx_add_comm(md_zero(), a); mx_add_zero(a); }
pub proof fn md_add4(a: Md, b: Md, c: Md, d: Md) ensures md_add(md_add(a, b), md_add(c, d)) == md_add(md_add(a, c), md_add(b, d)) {
    mx_add_assoc(a, b, md_add(c, d));
    mx_add_assoc(b, c, d);
    mx_add_comm(b, c);
    mx_add_assoc(c, b, d);
    mx_add_assoc(a, c, md_add(b, d));
}
/// (P + s.Q) + (a + s*b).c == (P + a.c) + s.(Q + b.c)
pub proof fn md_id_lincomb(p: Md, s: real, q: Md, a: real, b: real, c: Md)
    ensures md_add(md_add(p, md_smul(s, q)), md_smul(a + s * b, c)) == md_add(md_add(p, md_smul(a, c)), md_smul(s, md_add(q, md_smul(b, c)))),
{
    mx_smul_radd(a, s * b, c);
    mx_smul_assoc(s, b, c);
    mx_smul_add(s, q, md_smul(b, c));
    md_add4(p, md_smul(s, q), md_smul(a, c), md_smul(s, md_smul(b, c)));
}

// ------------------------------------------------------------------ dotm
pub proof fn lemma_dotm_empty(u: Seq<R64>, y: Seq<Md>) requires u.len() == 0 ensures dotm(u, y) == md_zero() { }

pub proof fn lemma_dotm_unfold(u: Seq<R64>, y: Seq<Md>)
    requires u.len() == y.len(), u.len() > 0,
    ensures dotm(u, y) == md_add(dotm(u.drop_last(), y.drop_last()), md_smul(u.last()@, y.last())),
{
    assert(zipsmul(u, y).drop_last() =~= zipsmul(u.drop_last(), y.drop_last()));
}

pub proof fn lemma_dotm_lincomb(u: Seq<R64>, v: Seq<R64>, w: Seq<R64>, y: Seq<Md>, s: real)
    requires
        u.len() == v.len(), u.len() == w.len(), u.len() == y.len(),
        forall|m: int| 0 <= m < u.len() ==> (#[trigger] w[m])@ == u[m]@ + s * v[m]@,
    ensures dotm(w, y) == md_add(dotm(u, y), md_smul(s, dotm(v, y))),
    decreases u.len(),
{
    if u.len() == 0 {
        mx_smul_zero(s, md_zero());
        mx_add_zero(md_zero());
    } else {
        lemma_dotm_unfold(u, y);
        lemma_dotm_unfold(v, y);
        lemma_dotm_unfold(w, y);
        lemma_dotm_lincomb(u.drop_last(), v.drop_last(), w.drop_last(), y.drop_last(), s);
        assert(w.last()@ == u.last()@ + s * v.last()@);
        md_id_lincomb(dotm(u.drop_last(), y.drop_last()), s, dotm(v.drop_last(), y.drop_last()), u.last()@, v.last()@, y.last());
    }
}

pub proof fn lemma_dotm_zeros(u: Seq<R64>, y: Seq<Md>)
    requires u.len() == y.len(), forall|m: int| 0 <= m < u.len() ==> (#[trigger] u[m])@ == 0real,
    ensures dotm(u, y) == md_zero(),
    decreases u.len(),
{
    if u.len() > 0 {
        lemma_dotm_unfold(u, y);
        lemma_dotm_zeros(u.drop_last(), y.drop_last());
        assert(u.last()@ == 0real);
        mx_smul_zero(0real, y.last());
        mx_add_zero(md_zero());
    }
}

pub proof fn lemma_dotm_zero_prefix(u: Seq<R64>, y: Seq<Md>, k: int)
    requires u.len() == y.len(), 0 <= k <= u.len(), forall|m: int| 0 <= m < k ==> (#[trigger] u[m])@ == 0real,
    ensures dotm(u, y) == dotm(u.subrange(k, u.len() as int), y.subrange(k, y.len() as int)),
    decreases u.len(),
{
    let n = u.len() as int;
    if n == k {
        lemma_dotm_zeros(u, y);
        lemma_dotm_empty(u.subrange(k, n), y.subrange(k, n));
    } else {
        lemma_dotm_unfold(u, y);
        lemma_dotm_zero_prefix(u.drop_last(), y.drop_last(), k);
        let ut = u.subrange(k, n);
        let yt = y.subrange(k, n);
        lemma_dotm_unfold(ut, yt);
        assert(ut.drop_last() =~= u.drop_last().subrange(k, n - 1));
        assert(yt.drop_last() =~= y.drop_last().subrange(k, n - 1));
        assert(ut.last() == u.last() && yt.last() == y.last());
    }
}

pub proof fn lemma_dotm_cons(u: Seq<R64>, y: Seq<Md>)
    requires u.len() == y.len(), u.len() > 0,
    ensures dotm(u, y) == md_add(md_smul(u[0]@, y[0]), dotm(u.subrange(1, u.len() as int), y.subrange(1, y.len() as int))),
    decreases u.len(),
{
    let n = u.len() as int;
    lemma_dotm_unfold(u, y);
    if n == 1 {
        lemma_dotm_empty(u.drop_last(), y.drop_last());
        lemma_dotm_empty(u.subrange(1, n), y.subrange(1, n));
        md_add_zero_l(md_smul(u[0]@, y[0]));
        mx_add_zero(md_smul(u[0]@, y[0]));
    } else {
        let u1 = u.drop_last();
        let y1 = y.drop_last();
        lemma_dotm_cons(u1, y1);
        let ut = u.subrange(1, n);
        let yt = y.subrange(1, n);
        lemma_dotm_unfold(ut, yt);
        assert(ut.drop_last() =~= u1.subrange(1, n - 1));
        assert(yt.drop_last() =~= y1.subrange(1, n - 1));
        assert(ut.last() == u.last() && yt.last() == y.last());
        mx_add_assoc(md_smul(u[0]@, y[0]), dotm(u1.subrange(1, n - 1), y1.subrange(1, n - 1)), md_smul(u.last()@, y.last()));
    }
}

// ------------------------------------------------------------------ dotr
// ------------------------------------------------------------------ cancellation (for uniqueness of module-valued solutions)
pub proof fn md_cancel(t: Md, b: Md)
    requires md_add(t, b) == b,
    ensures t == md_zero(),
{
    let nb = md_sub(md_zero(), b);
    mx_sub_add(md_zero(), b);
    mx_add_comm(nb, b);
    mx_add_assoc(t, b, nb);
    mx_add_zero(t);
}
pub proof fn md_smul_cancel(u: real, y: Md)
    requires md_smul(u, y) == md_zero(), u != 0real,
    ensures y == md_zero(),
{
    let r = 1real / u;
    assert(r * u == 1real) by(nonlinear_arith) requires r == 1real / u, u != 0real;
    mx_smul_assoc(r, u, y);
    mx_smul_one(y);
    mx_smul_zero(r, y);
}
pub proof fn lemma_dotm_zeros_r(u: Seq<R64>, y: Seq<Md>)
    requires u.len() == y.len(), forall|m: int| 0 <= m < y.len() ==> #[trigger] y[m] == md_zero(),
    ensures dotm(u, y) == md_zero(),
    decreases u.len(),
{
    if u.len() > 0 {
        lemma_dotm_unfold(u, y);
        lemma_dotm_zeros_r(u.drop_last(), y.drop_last());
        assert(y.last() == md_zero());
        mx_smul_zero(u.last()@, y.last());
        mx_add_zero(md_zero());
    }
}
/// x = z + y pointwise  ==>  <u, x> == <u, z> + <u, y>
pub proof fn lemma_dotm_add_r(u: Seq<R64>, z: Seq<Md>, y: Seq<Md>, x: Seq<Md>)
    requires u.len() == z.len(), u.len() == y.len(), u.len() == x.len(), forall|m: int| 0 <= m < u.len() ==> #[trigger] x[m] == md_add(z[m], y[m]),
    ensures dotm(u, x) == md_add(dotm(u, z), dotm(u, y)),
    decreases u.len(),
{
    if u.len() == 0 {
        mx_add_zero(md_zero());
    } else {
        lemma_dotm_unfold(u, x);
        lemma_dotm_unfold(u, z);
        lemma_dotm_unfold(u, y);
        lemma_dotm_add_r(u.drop_last(), z.drop_last(), y.drop_last(), x.drop_last());
        assert(x.last() == md_add(z.last(), y.last()));
        mx_smul_add(u.last()@, z.last(), y.last());
        md_add4(dotm(u.drop_last(), z.drop_last()), dotm(u.drop_last(), y.drop_last()), md_smul(u.last()@, z.last()), md_smul(u.last()@, y.last()));
    }
}

pub proof fn lemma_dotr_lincomb(u: Seq<R64>, v: Seq<R64>, w: Seq<R64>, y: Seq<real>, s: real)
    requires
        u.len() == v.len(), u.len() == w.len(), u.len() == y.len(),
        forall|m: int| 0 <= m < u.len() ==> (#[trigger] w[m])@ == u[m]@ + s * v[m]@,
    ensures dotr(w, y) == dotr(u, y) + s * dotr(v, y),
    decreases u.len(),
{
    if u.len() > 0 {
        lemma_dotr_lincomb(u.drop_last(), v.drop_last(), w.drop_last(), y.drop_last(), s);
        let p = dotr(u.drop_last(), y.drop_last());
        let q = dotr(v.drop_last(), y.drop_last());
        let a = u.last()@; let b = v.last()@; let c = y.last();
        assert(w.last()@ == a + s * b);
        assert((p + s * q) + (a + s * b) * c == (p + a * c) + s * (q + b * c)) by (nonlinear_arith);
    } else {
        assert(s * 0real == 0real) by (nonlinear_arith);
    }
}

// ------------------------------------------------------------------ real sums (Sum for f64) and real-real inner products
pub open spec fn sumr(s: Seq<R64>) -> real
    decreases s.len(),
{
    if s.len() == 0 { 0real } else { sumr(s.drop_last()) + s.last()@ }
}
pub open spec fn rv(v: Seq<R64>) -> Seq<real> { Seq::new(v.len(), |i: int| v[i]@) }

/// a sequence that is the pointwise product of u and v sums to <u, v>
pub proof fn lemma_sumr_dot(s: Seq<R64>, u: Seq<R64>, v: Seq<R64>)
    requires s.len() == u.len(), u.len() == v.len(), forall|i: int| 0 <= i < s.len() ==> (#[trigger] s[i])@ == u[i]@ * v[i]@,
    ensures sumr(s) == dotr(u, rv(v)),
    decreases s.len(),
{
    if s.len() > 0 {
        lemma_sumr_dot(s.drop_last(), u.drop_last(), v.drop_last());
        assert(rv(v).drop_last() =~= rv(v.drop_last()));
        assert(s.last()@ == u.last()@ * v.last()@);
        assert(rv(v).last() == v.last()@);
    }
}
}
pub use linalg_f64_spec::*;
