// ---------------------------------------------------------------------------------------------
// spec/dualview.rs -- data declarations of rust/dual/dual.rs (written by hand: derives/#[pyclass]
// dropped, f64 -> R64 per R6) and the *views* the contracts are stated over:
//   value, gradient per variable NAME (0 for names not carried), half-Hessian per NAME pair.
// ---------------------------------------------------------------------------------------------
pub(crate) mod dualview_m {
use vstd::prelude::*;
use std::sync::Arc;
use super::r64_shim::*;
use super::coll_shim::*;
use super::nd_shim::*;

pub struct Dual {
    pub(crate) real: R64,
    pub(crate) vars: Arc<IndexSet<String>>,
    pub(crate) dual: Array1<R64>,
}

pub struct Dual2 {
    pub(crate) real: R64,
    pub(crate) vars: Arc<IndexSet<String>>,
    pub(crate) dual: Array1<R64>,
    pub(crate) dual2: Array2<R64>,
}

impl Dual {
    /// C20 "shape invariant" of the type: checked by Verus at every construction site
    #[verifier::type_invariant]
    pub(crate) open spec fn inv(self) -> bool { self.dual.sv().len() == self.vars@.len() }
}
impl Dual2 {
    #[verifier::type_invariant]
    pub(crate) open spec fn inv(self) -> bool {
        self.dual.sv().len() == self.vars@.len() && self.dual2.nr() == self.vars@.len() && self.dual2.nc() == self.vars@.len()
    }
}

/// #[derive(Clone)] expansion (field-wise clone), written out so that it carries a contract
pub closed spec fn dual_clone_post(a: Dual, r: Dual) -> bool { r.real == a.real && r.vars == a.vars && r.dual.sv() == a.dual.sv() }
pub closed spec fn dual2_clone_post(a: Dual2, r: Dual2) -> bool {
    r.real == a.real && r.vars == a.vars && r.dual.sv() == a.dual.sv()
    && r.dual2.nr() == a.dual2.nr() && r.dual2.nc() == a.dual2.nc()
    && forall|i: int, j: int| #[trigger] r.dual2.at(i, j) == a.dual2.at(i, j)
}

pub(crate) proof fn lemma_dual_clone_post(a: Dual, r: Dual)
    requires dual_clone_post(a, r),
    ensures r.real == a.real && r.vars == a.vars && r.dual.sv() == a.dual.sv(),
{ }
pub(crate) proof fn lemma_dual2_clone_post(a: Dual2, r: Dual2)
    requires dual2_clone_post(a, r),
    ensures
        r.real == a.real && r.vars == a.vars && r.dual.sv() == a.dual.sv()
        && r.dual2.nr() == a.dual2.nr() && r.dual2.nc() == a.dual2.nc(),
        forall|i: int, j: int| #[trigger] r.dual2.at(i, j) == a.dual2.at(i, j),
{ }

impl Clone for Dual {
    fn clone(&self) -> (r: Self)
        ensures dual_clone_post(*self, r),
    {
        proof { use_type_invariant(self); }
        Dual { real: self.real, vars: Arc::clone(&self.vars), dual: self.dual.clone() }
    }
}
impl Clone for Dual2 {
    fn clone(&self) -> (r: Self)
        ensures dual2_clone_post(*self, r),
    {
        proof { use_type_invariant(self); }
        Dual2 { real: self.real, vars: Arc::clone(&self.vars), dual: self.dual.clone(), dual2: self.dual2.clone() }
    }
}

pub enum VarsRelationship { ArcEquivalent, ValueEquivalent, Superset, Subset, Difference }

impl Clone for VarsRelationship {
    fn clone(&self) -> (r: Self) ensures r == *self {
        match self {
            VarsRelationship::ArcEquivalent => VarsRelationship::ArcEquivalent,
            VarsRelationship::ValueEquivalent => VarsRelationship::ValueEquivalent,
            VarsRelationship::Superset => VarsRelationship::Superset,
            VarsRelationship::Subset => VarsRelationship::Subset,
            VarsRelationship::Difference => VarsRelationship::Difference,
        }
    }
}

// ------------------------------------------------------------------ views by NAME

/// gradient entry for name `n`: the stored value at n's position, 0 if n is not carried
pub(crate) open spec fn grad_at(names: Seq<String>, vals: Seq<R64>, n: String) -> real {
    if names.contains(n) { vals[names.index_of(n)]@ } else { 0real }
}

/// stored half-Hessian entry for the name pair (n, k), 0 if either is not carried
pub(crate) open spec fn hess_at(names: Seq<String>, m: Array2<R64>, n: String, k: String) -> real {
    if names.contains(n) && names.contains(k) { m.at(names.index_of(n), names.index_of(k))@ } else { 0real }
}

/// shape invariants (C20: "a value satisfying its type's shape invariants")
pub(crate) open spec fn dual_wf(d: Dual) -> bool { d.dual.sv().len() == d.vars@.len() }
pub(crate) open spec fn dual2_wf(d: Dual2) -> bool {
    d.dual.sv().len() == d.vars@.len() && d.dual2.nr() == d.vars@.len() && d.dual2.nc() == d.vars@.len()
}

pub(crate) open spec fn seq_subset(a: Seq<String>, b: Seq<String>) -> bool {
    forall|i: int| 0 <= i < a.len() ==> b.contains(#[trigger] a[i])
}

/// the five-way classification (for operands that do not share storage)
pub(crate) open spec fn vars_rel(s: Seq<String>, o: Seq<String>) -> VarsRelationship {
    if s =~= o { VarsRelationship::ValueEquivalent }
    else if s.len() >= o.len() && seq_subset(o, s) { VarsRelationship::Superset }
    else if s.len() < o.len() && seq_subset(s, o) { VarsRelationship::Subset }
    else { VarsRelationship::Difference }
}

/// a caller-supplied `state` is consistent with the two name sequences
pub(crate) open spec fn state_ok(state: Option<VarsRelationship>, s: Seq<String>, o: Seq<String>) -> bool {
    match state {
        None => true,
        Some(VarsRelationship::ArcEquivalent) => s =~= o,
        Some(VarsRelationship::ValueEquivalent) => s =~= o,
        Some(_) => true,  // the lookup path is correct for ANY relationship
    }
}

/// position of a name in a duplicate-free sequence
pub(crate) proof fn lemma_index_of_unique(names: Seq<String>, i: int)
    requires names.no_duplicates(), 0 <= i < names.len(),
    ensures names.contains(names[i]), names.index_of(names[i]) == i,
{
    broadcast use {group_r64, group_coll};
    let j = names.index_of(names[i]);
    assert(names.contains(names[i]));
}

pub(crate) proof fn lemma_grad_at_index(names: Seq<String>, vals: Seq<R64>, i: int)
    requires names.no_duplicates(), 0 <= i < names.len(),
    ensures grad_at(names, vals, names[i]) == vals[i]@,
{
    broadcast use {group_r64, group_coll};
    lemma_index_of_unique(names, i);
}

// ------------------------------------------------------------------ lemmas on seq_union / dedup
pub(crate) proof fn lemma_seq_union_props(a: Seq<String>, b: Seq<String>)
    requires a.no_duplicates(),
    ensures
        seq_union(a, b).no_duplicates(),
        forall|x: String| #[trigger] seq_union(a, b).contains(x) <==> (a.contains(x) || b.contains(x)),
        seq_union(a, b).len() >= a.len(),
        forall|i: int| 0 <= i < a.len() ==> #[trigger] seq_union(a, b)[i] == a[i],
    decreases b.len(),
{
    broadcast use {group_r64, group_coll};
    if b.len() > 0 {
        let bl = b.drop_last();
        lemma_seq_union_props(a, bl);
        let u = seq_union(a, bl);
        assert forall|x: String| #[trigger] seq_union(a, b).contains(x) <==> (a.contains(x) || b.contains(x)) by {
            if b.contains(x) {
                let j = choose|j: int| 0 <= j < b.len() && b[j] == x;
                if j < bl.len() { assert(bl[j] == x); assert(bl.contains(x)); }
            }
            if bl.contains(x) {
                let j = choose|j: int| 0 <= j < bl.len() && bl[j] == x;
                assert(b[j] == x);
            }
            if u.contains(b.last()) {
            } else {
                let up = u.push(b.last());
                assert(up[u.len() as int] == b.last());
                if up.contains(x) {
                    let j = choose|j: int| 0 <= j < up.len() && up[j] == x;
                    if j < u.len() { assert(u[j] == x); } else { assert(x == b.last()); assert(b[b.len() - 1] == x); }
                }
                if u.contains(x) {
                    let j = choose|j: int| 0 <= j < u.len() && u[j] == x;
                    assert(up[j] == x);
                }
            }
        }
    }
}

pub(crate) proof fn lemma_dedup_nodup(s: Seq<String>)
    requires s.no_duplicates(),
    ensures dedup(s) =~= s,
    decreases s.len(),
{
    broadcast use {group_r64, group_coll};
    if s.len() > 0 {
        let d = s.drop_last();
        assert(d.no_duplicates());
        lemma_dedup_nodup(d);
        if d.contains(s.last()) {
            let j = choose|j: int| 0 <= j < d.len() && d[j] == s.last();
            assert(s[j] == s[s.len() - 1]);
        }
    }
}

pub(crate) proof fn lemma_dedup_props(s: Seq<String>)
    ensures
        dedup(s).no_duplicates(),
        forall|x: String| #[trigger] dedup(s).contains(x) <==> s.contains(x),
    decreases s.len(),
{
    broadcast use {group_r64, group_coll};
    if s.len() > 0 {
        let sl = s.drop_last();
        lemma_dedup_props(sl);
        let d = dedup(sl);
        assert forall|x: String| #[trigger] dedup(s).contains(x) <==> s.contains(x) by {
            if s.contains(x) {
                let j = choose|j: int| 0 <= j < s.len() && s[j] == x;
                if j < sl.len() { assert(sl[j] == x); assert(sl.contains(x)); }
            }
            if sl.contains(x) {
                let j = choose|j: int| 0 <= j < sl.len() && sl[j] == x;
                assert(s[j] == x);
            }
            if !d.contains(s.last()) {
                let dp = d.push(s.last());
                assert(dp[d.len() as int] == s.last());
                if dp.contains(x) {
                    let j = choose|j: int| 0 <= j < dp.len() && dp[j] == x;
                    if j < d.len() { assert(d[j] == x); } else { assert(s[s.len() - 1] == x); }
                }
                if d.contains(x) {
                    let j = choose|j: int| 0 <= j < d.len() && d[j] == x;
                    assert(dp[j] == x);
                }
            }
        }
    }
}

/// grad_at at every carried position
pub(crate) proof fn lemma_grad_at_all(names: Seq<String>, vals: Seq<R64>)
    requires names.no_duplicates(),
    ensures forall|i: int| 0 <= i < names.len() ==> #[trigger] grad_at(names, vals, names[i]) == vals[i]@,
{
    broadcast use {group_r64, group_coll};
    assert forall|i: int| 0 <= i < names.len() implies #[trigger] grad_at(names, vals, names[i]) == vals[i]@ by {
        lemma_grad_at_index(names, vals, i);
    }
}

/// re-laying gradients onto a new name list by name lookup (values[i] = old gradient of target[i])
pub(crate) proof fn lemma_new_vars_grad(names: Seq<String>, vals: Seq<R64>, target: Seq<String>, out: Seq<R64>)
    requires
        names.no_duplicates(), target.no_duplicates(), out.len() == target.len(),
        forall|i: int| 0 <= i < target.len() ==> (#[trigger] out[i])@ == grad_at(names, vals, target[i]),
    ensures
        forall|n: String| #[trigger] grad_at(target, out, n) == (if target.contains(n) { grad_at(names, vals, n) } else { 0real }),
{
    assert forall|n: String| #[trigger] grad_at(target, out, n) == (if target.contains(n) { grad_at(names, vals, n) } else { 0real }) by {
        if target.contains(n) {
            let i = target.index_of(n);
            assert(out[i]@ == grad_at(names, vals, target[i]));
        }
    }
}

/// the Hessian entry selected by two looked-up positions (None = name not carried)
pub(crate) open spec fn hess_lookup(m: Array2<R64>, idx: Seq<Option<usize>>, a: int, b: int) -> real {
    if idx[a].is_some() && idx[b].is_some() { m.at(idx[a].unwrap() as int, idx[b].unwrap() as int)@ } else { 0real }
}

/// `idx[a]` is the position of target[a] in names (None iff absent)
pub(crate) open spec fn idx_ok(names: Seq<String>, target: Seq<String>, idx: Seq<Option<usize>>) -> bool {
    idx.len() == target.len()
    && forall|a: int| 0 <= a < target.len() ==> (
        ((#[trigger] idx[a]).is_some() ==> (idx[a].unwrap() as int) < names.len() && names[idx[a].unwrap() as int] == target[a])
        && (idx[a].is_none() ==> !names.contains(target[a])))
}

pub(crate) proof fn lemma_new_vars_hess(names: Seq<String>, m: Array2<R64>, target: Seq<String>, idx: Seq<Option<usize>>, out: Array2<R64>)
    requires
        names.no_duplicates(), target.no_duplicates(), idx_ok(names, target, idx),
        forall|a: int, b: int| 0 <= a < target.len() && 0 <= b < target.len() ==> (#[trigger] out.at(a, b))@ == hess_lookup(m, idx, a, b),
    ensures
        forall|n: String, k: String| #[trigger] hess_at(target, out, n, k)
            == (if target.contains(n) && target.contains(k) { hess_at(names, m, n, k) } else { 0real }),
{
    assert forall|n: String, k: String| #[trigger] hess_at(target, out, n, k)
            == (if target.contains(n) && target.contains(k) { hess_at(names, m, n, k) } else { 0real }) by {
        if target.contains(n) && target.contains(k) {
            let a = target.index_of(n);
            let b = target.index_of(k);
            assert(out.at(a, b)@ == hess_lookup(m, idx, a, b));
            if idx[a].is_some() { lemma_index_of_unique(names, idx[a].unwrap() as int); }
            if idx[b].is_some() { lemma_index_of_unique(names, idx[b].unwrap() as int); }
        }
    }
}

/// unfolding of grad_at / hess_at together with the range facts of `index_of` (broadcast in the operator units)
pub(crate) broadcast proof fn lemma_grad_at_unfold(names: Seq<String>, vals: Seq<R64>, n: String)
    ensures
        #[trigger] grad_at(names, vals, n) == (if names.contains(n) { vals[names.index_of(n)]@ } else { 0real }),
        names.contains(n) ==> 0 <= names.index_of(n) < names.len() && names[names.index_of(n)] == n,
{
    if names.contains(n) {
        let j = choose|j: int| 0 <= j < names.len() && names[j] == n;
    }
}

pub(crate) broadcast proof fn lemma_hess_at_unfold(names: Seq<String>, m: Array2<R64>, n: String, k: String)
    ensures
        #[trigger] hess_at(names, m, n, k) == (if names.contains(n) && names.contains(k) { m.at(names.index_of(n), names.index_of(k))@ } else { 0real }),
        names.contains(n) ==> 0 <= names.index_of(n) < names.len() && names[names.index_of(n)] == n,
        names.contains(k) ==> 0 <= names.index_of(k) < names.len() && names[names.index_of(k)] == k,
{
    if names.contains(n) { let j = choose|j: int| 0 <= j < names.len() && names[j] == n; }
    if names.contains(k) { let j = choose|j: int| 0 <= j < names.len() && names[j] == k; }
}

pub(crate) broadcast group group_view_unfold {
    lemma_grad_at_unfold,
    lemma_hess_at_unfold,
}

} // mod dualview_m
pub(crate) use dualview_m::*;
use std::sync::Arc;
