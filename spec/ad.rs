// ---------------------------------------------------------------------------------------------
// spec/ad.rs -- the ORACLE for C01 / C02: the textbook forward-mode rules, stated on the views
// (value, gradient per variable NAME, stored half-Hessian per NAME pair).  Nothing in this file is
// taken from the code: for an operator with result f(x, y) and partials fa = df/dx, fb = df/dy,
// faa, fab, fbb the rule is
//      val(r)       = f
//      grad(r)[n]   = fa*grad(a)[n] + fb*grad(b)[n]
//      hess2(r)[n,k] = fa*hess2(a)[n,k] + fb*hess2(b)[n,k]
//                     + ( faa*ga[n]*ga[k] + fab*(ga[n]*gb[k] + ga[k]*gb[n]) + fbb*gb[n]*gb[k] ) / 2
// (hess2 is the STORED half-Hessian: the Hessian read back by gradient2 is 2*hess2).
// ---------------------------------------------------------------------------------------------

spec fn names_union<T: Vars0>(a: &T, b: &T, r: &T) -> bool {
    forall|n: String| #[trigger] r.s_arc()@.contains(n) <==> (a.s_arc()@.contains(n) || b.s_arc()@.contains(n))
}

#[verifier::inline]
spec fn bin1_post<T: Vars0>(a: &T, b: &T, r: &T, f: real, fa: real, fb: real) -> bool {
    r.s_wf() && r.s_val() == f && names_union(a, b, r)
    && (forall|n: String| #[trigger] r.s_grad(n) == fa * a.s_grad(n) + fb * b.s_grad(n))
}

#[verifier::inline]
spec fn hess_rule(ha: real, hb: real, gan: real, gak: real, gbn: real, gbk: real,
                           fa: real, fb: real, faa: real, fab: real, fbb: real) -> real {
    fa * ha + fb * hb + (faa * gan * gak + fab * (gan * gbk + gak * gbn) + fbb * gbn * gbk) / 2real
}

#[verifier::inline]
spec fn bin2_post<T: Vars0>(a: &T, b: &T, r: &T, f: real, fa: real, fb: real, faa: real, fab: real, fbb: real) -> bool {
    bin1_post(a, b, r, f, fa, fb)
    && (forall|n: String, k: String| #[trigger] r.s_hess(n, k) ==
        hess_rule(a.s_hess(n, k), b.s_hess(n, k), a.s_grad(n), a.s_grad(k), b.s_grad(n), b.s_grad(k), fa, fb, faa, fab, fbb))
}

/// unary rules (also: binary rule with a float operand promoted to a constant, see lemma_const_promotion)
#[verifier::inline]
spec fn un1_post<T: Vars0>(a: &T, r: &T, f: real, fa: real) -> bool {
    r.s_wf() && r.s_val() == f && r.s_arc()@ =~= a.s_arc()@
    && (forall|n: String| #[trigger] r.s_grad(n) == fa * a.s_grad(n))
}

#[verifier::inline]
spec fn un2_post<T: Vars0>(a: &T, r: &T, f: real, fa: real, faa: real) -> bool {
    un1_post(a, r, f, fa)
    && (forall|n: String, k: String| #[trigger] r.s_hess(n, k) == fa * a.s_hess(n, k) + faa * a.s_grad(n) * a.s_grad(k) / 2real)
}

/// unary rules where the result's variable list is only known as a SET (the operand went through union alignment)
#[verifier::inline]
spec fn un1set_post<T: Vars0>(a: &T, r: &T, f: real, fa: real) -> bool {
    r.s_wf() && r.s_val() == f && (forall|n: String| #[trigger] r.s_arc()@.contains(n) <==> a.s_arc()@.contains(n))
    && (forall|n: String| #[trigger] r.s_grad(n) == fa * a.s_grad(n))
}
#[verifier::inline]
spec fn un2set_post<T: Vars0>(a: &T, r: &T, f: real, fa: real, faa: real) -> bool {
    un1set_post(a, r, f, fa)
    && (forall|n: String, k: String| #[trigger] r.s_hess(n, k) == fa * a.s_hess(n, k) + faa * a.s_grad(n) * a.s_grad(k) / 2real)
}

/// "Mixing floats and duals gives the same answer as promoting the float to a constant":
/// a constant c has no names, zero gradient and zero Hessian; the binary rule then collapses to the unary one.
spec fn is_const<T: Vars0>(c: &T, v: real) -> bool {
    c.s_wf() && c.s_val() == v && c.s_arc()@.len() == 0
    && (forall|n: String| #[trigger] c.s_grad(n) == 0real)
    && (forall|n: String, k: String| #[trigger] c.s_hess(n, k) == 0real)
}

pub(crate) proof fn lemma_const_promotion_right<T: Vars0>(a: &T, c: &T, r: &T, f: real, fa: real, fb: real, faa: real, fab: real, fbb: real)
    requires is_const(c, c.s_val()), bin2_post(a, c, r, f, fa, fb, faa, fab, fbb),
    ensures
        r.s_val() == f,
        forall|n: String| #[trigger] r.s_grad(n) == fa * a.s_grad(n),
        forall|n: String, k: String| #[trigger] r.s_hess(n, k) == fa * a.s_hess(n, k) + faa * a.s_grad(n) * a.s_grad(k) / 2real,
{
    assert forall|n: String, k: String| #[trigger] r.s_hess(n, k) == fa * a.s_hess(n, k) + faa * a.s_grad(n) * a.s_grad(k) / 2real by {
        let gan = a.s_grad(n); let gak = a.s_grad(k);
        assert(c.s_grad(n) == 0real && c.s_grad(k) == 0real && c.s_hess(n, k) == 0real);
        assert(hess_rule(a.s_hess(n, k), 0real, gan, gak, 0real, 0real, fa, fb, faa, fab, fbb)
            == fa * a.s_hess(n, k) + faa * gan * gak / 2real) by(nonlinear_arith);
    }
}

// ------------------------------------------------------------------ the rule table (calculus)
// densities
spec fn r_phi(x: real) -> real { r_exp(-(x * x) / 2real) / r_sqrt(2real * r_pi()) }
/// 1 / phi(x), written without a reciprocal: sqrt(2 pi) * exp(x^2 / 2)
spec fn r_inv_phi(x: real) -> real { r_sqrt(2real * r_pi()) * r_exp((x * x) / 2real) }

// ------------------------------------------------------------------ assumed mathematical facts (tier A, oracle side)
/// x^2, x^-1, x^-2, x^-3 for the real power function (x != 0 for the negative ones)
#[verifier::external_body]
pub(crate) proof fn axiom_pow_small(x: real)
    ensures
        r_pow(x, 2real) == x * x,
        x != 0real ==> r_pow(x, -1real) == 1real / x,
        x != 0real ==> r_pow(x, -2real) == 1real / (x * x),
        x != 0real ==> r_pow(x, -3real) == 1real / (x * x * x),
{ }

// ------------------------------------------------------------------ algebra (nonlinear) used by the per-rule proof hints
pub(crate) proof fn alg_mul1(ga: real, gb: real, x: real, y: real)
    ensures ga * y + gb * x == y * ga + x * gb,
{
    assert(ga * y + gb * x == y * ga + x * gb) by(nonlinear_arith);
}

pub(crate) proof fn alg_mul2(ha: real, hb: real, gan: real, gak: real, gbn: real, gbk: real, x: real, y: real)
    ensures ha * y + hb * x + 0.5real * (gan * gbk + gak * gbn) == hess_rule(ha, hb, gan, gak, gbn, gbk, y, x, 0real, 1real, 0real),
{
    assert(ha * y + hb * x + 0.5real * (gan * gbk + gak * gbn)
        == y * ha + x * hb + (0real * gan * gak + 1real * (gan * gbk + gak * gbn) + 0real * gbn * gbk) / 2real) by(nonlinear_arith);
}

pub(crate) proof fn alg_assoc3(g: real, p: real, w: real)
    ensures (g * p) * w == (p * w) * g,
{
    assert((g * p) * w == (p * w) * g) by(nonlinear_arith);
}

pub(crate) proof fn alg_half_assoc(a: real, b: real)
    ensures (0.5real * a) * b == 0.5real * (a * b),
{
    assert((0.5real * a) * b == 0.5real * (a * b)) by(nonlinear_arith);
}
pub(crate) proof fn alg_half_comm(g: real, q: real)
    ensures g * (0.5real * q) == (q * g) / 2real,
{
    assert(g * (0.5real * q) == 0.5real * (q * g)) by(nonlinear_arith);
}
pub(crate) proof fn alg_assoc(a: real, b: real, c: real)
    ensures a * b * c == a * (b * c),
{
    assert(a * b * c == a * (b * c)) by(nonlinear_arith);
}

/// Dual2 power rule: h*c1 + (gn*gk)*c2 with c1 = p*w1, c2 = ((0.5*p)*(p-1))*w2
pub(crate) proof fn alg_pow2(h: real, gn: real, gk: real, p: real, w1: real, w2: real)
    ensures h * (p * w1) + (gn * gk) * (((0.5real * p) * (p - 1real)) * w2)
        == (p * w1) * h + (p * (p - 1real) * w2) * gn * gk / 2real,
{
    let pp = p * (p - 1real);
    let q = pp * w2;
    let g = gn * gk;
    alg_half_assoc(p, p - 1real);
    alg_half_assoc(pp, w2);
    alg_half_comm(g, q);
    alg_assoc(q, gn, gk);
    alg_comm(h, p * w1);
}

pub(crate) proof fn alg_comm(a: real, b: real)
    ensures a * b == b * a,
{
    assert(a * b == b * a) by(nonlinear_arith);
}

/// sqrt(2 pi) is a positive real (so dividing by it is defined)
#[verifier::external_body]
pub(crate) proof fn axiom_sqrt_2pi_pos()
    ensures r_sqrt(2real * r_pi()) > 0real,
{ }

// ---- exp / ln / normal cdf / inverse cdf (second order): r.hess = c*(h + 0.5*g g)  etc.
pub(crate) proof fn alg_exp2(c: real, h: real, gn: real, gk: real)
    ensures c * (h + 0.5real * (gn * gk)) == c * h + c * gn * gk / 2real,
{
    assert(c * (h + 0.5real * (gn * gk)) == c * h + c * gn * gk / 2real) by(nonlinear_arith);
}

/// ln: s*h - ((gn*gk)*0.5)*(s*s) with s = 1/x  ==  (1/x)*h + (-1/(x*x))*gn*gk/2
pub(crate) proof fn alg_ln2(x: real, h: real, gn: real, gk: real)
    requires x != 0real,
    ensures (1real / x) * h - ((gn * gk) * 0.5real) * ((1real / x) * (1real / x)) == (1real / x) * h + (-1real / (x * x)) * gn * gk / 2real,
{
    let s = 1real / x;
    assert(s * s == 1real / (x * x)) by(nonlinear_arith) requires s == 1real / x, x != 0real;
    let t = 1real / (x * x);
    assert(-1real / (x * x) == -t) by(nonlinear_arith) requires t == 1real / (x * x), x != 0real;
    alg_ln2_core(s, h, gn, gk, t);
}
pub(crate) proof fn alg_ln2_core(s: real, h: real, gn: real, gk: real, t: real)
    ensures s * h - ((gn * gk) * 0.5real) * t == s * h + (-t) * gn * gk / 2real,
{
    assert(s * h - ((gn * gk) * 0.5real) * t == s * h + (-t) * gn * gk / 2real) by(nonlinear_arith);
}

/// cdf / icdf: s*h + ((0.5*s2)*(gn*gk))  ==  s*h + s2*gn*gk/2
pub(crate) proof fn alg_cdf2(s: real, s2: real, h: real, gn: real, gk: real)
    ensures s * h + (0.5real * s2) * (gn * gk) == s * h + s2 * gn * gk / 2real,
{
    assert(s * h + (0.5real * s2) * (gn * gk) == s * h + s2 * gn * gk / 2real) by(nonlinear_arith);
}

// ---- division
pub(crate) proof fn alg_mul_recip(a: real, z: real)
    requires z != 0real,
    ensures a * (1real / z) == a / z,
{
    assert(a * (1real / z) == a / z) by(nonlinear_arith) requires z != 0real;
}
pub(crate) proof fn alg_neg_recip(a: real, z: real)
    requires z != 0real,
    ensures -(a / z) == -a / z, (-1real / z) == -(1real / z),
{
    assert(-(a / z) == -a / z) by(nonlinear_arith) requires z != 0real;
    assert((-1real / z) == -(1real / z)) by(nonlinear_arith) requires z != 0real;
}
/// a*((-1*t)*g) == (-(a*t))*g
pub(crate) proof fn alg_scale_neg(a: real, t: real, g: real)
    ensures a * ((-1real * t) * g) == (-(a * t)) * g,
{
    assert(a * ((-1real * t) * g) == (-(a * t)) * g) by(nonlinear_arith);
}
/// x*((-t)*g) == (-(x*t))*g
pub(crate) proof fn alg_scale_neg2(x: real, t: real, g: real)
    ensures x * ((-t) * g) == (-(x * t)) * g,
{
    assert(x * ((-t) * g) == (-(x * t)) * g) by(nonlinear_arith);
}

/// second-order reciprocal rule scaled by a constant x:  x*p.hess  with  p = y^-1
pub(crate) proof fn alg_div2_f64(x: real, hb: real, gbn: real, gbk: real, t2: real, t3: real)
    ensures x * ((-1real * t2) * hb + (2real * t3) * gbn * gbk / 2real) == (-(x * t2)) * hb + (2real * (x * t3)) * gbn * gbk / 2real,
{
    alg_scale_neg(x, t2, hb);
    let m = t3 * gbn * gbk;
    assert((2real * t3) * gbn * gbk / 2real == m) by(nonlinear_arith) requires m == t3 * gbn * gbk;
    assert((2real * (x * t3)) * gbn * gbk / 2real == x * m) by(nonlinear_arith) requires m == t3 * gbn * gbk;
    let u = (-1real * t2) * hb;
    assert(x * (u + m) == x * u + x * m) by(nonlinear_arith);
}

pub(crate) proof fn alg_cross(g: real, t: real, h: real)
    ensures g * ((-1real * t) * h) == (-t) * (g * h),
{
    assert(g * ((-1real * t) * h) == (-t) * (g * h)) by(nonlinear_arith);
}
pub(crate) proof fn alg_distrib(t: real, a: real, b: real)
    ensures t * (a + b) == t * a + t * b,
{
    assert(t * (a + b) == t * a + t * b) by(nonlinear_arith);
}
/// quotient rule at second order, computed as a * b^-1 with t2 = y^-2, t3 = y^-3, w1 = y^-1
pub(crate) proof fn alg_div2(x: real, w1: real, ha: real, hb: real, gan: real, gak: real, gbn: real, gbk: real, t2: real, t3: real)
    ensures
        hess_rule(ha, (-1real * t2) * hb + (2real * t3) * gbn * gbk / 2real, gan, gak, (-1real * t2) * gbn, (-1real * t2) * gbk, w1, x, 0real, 1real, 0real)
        == hess_rule(ha, hb, gan, gak, gbn, gbk, w1, -(x * t2), 0real, -t2, 2real * (x * t3)),
{
    alg_div2_f64(x, hb, gbn, gbk, t2, t3);
    alg_cross(gan, t2, gbk);
    alg_cross(gak, t2, gbn);
    alg_distrib(-t2, gan * gbk, gak * gbn);
}

pub proof fn alg_neg_mul(q: real, g: real)
    ensures -(q * g) == (-q) * g, 0real - q * g == (-q) * g,
{
    assert(-(q * g) == (-q) * g) by(nonlinear_arith);
}

// ---- linear interpolation of dual numbers: g1 + w*(1*g2 + (-1)*g1) == (1-w)*g1 + w*g2
pub proof fn alg_lerp(g1: real, g2: real, w: real)
    ensures 1real * g1 + 1real * (w * (1real * g2 + (-1real) * g1)) == (1real - w) * g1 + w * g2,
{
    assert(1real * g1 + 1real * (w * (1real * g2 + (-1real) * g1)) == (1real - w) * g1 + w * g2) by(nonlinear_arith);
}
