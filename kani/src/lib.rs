//! Kani harnesses (tier K: complete over the stated finite domain, loop-free or with unwinding assertions; tier Kb:
//! bounded stand-ins).  They validate ASSUMED contracts of the Verus shims against the real dependencies and the
//! real rateslib code.
#![allow(dead_code)]

#[cfg(kani)]
mod chrono_facts;

#[cfg(kani)]
mod linalg_swaps;

#[cfg(kani)]
mod chrono_weekday;

#[cfg(kani)]
mod int_facts;

#[cfg(kani)]
mod month_facts;
