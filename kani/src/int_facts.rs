//! [K] facts of /verif/shim/intspecs.rs about std integer functions (`assume_specification`s in the Verus units), checked
//! against the real std for EVERY argument (loop-free: complete over the full domain).

#[kani::proof]
fn std_i32_abs_signum() {
    let x: i32 = kani::any();
    let s = x.signum();
    assert!(s == if x > 0 { 1 } else if x == 0 { 0 } else { -1 });
    if x > i32::MIN {
        let a = x.abs();
        assert!(a as i64 == if x < 0 { -(x as i64) } else { x as i64 });
    }
}

/// rem_euclid for the only divisor the code under contract uses (12, in add_months): the mathematical remainder in [0, 12)
/// (the general statement over every positive divisor does not finish in CBMC within 15 minutes: 64-bit symbolic division)
#[kani::proof]
fn std_i32_rem_euclid_12() {
    let x: i32 = kani::any();
    let r = x.rem_euclid(12);
    assert!(0 <= r && r < 12);
    assert!(((x as i64) - (r as i64)) % 12 == 0);
}

#[kani::proof]
fn std_i8_unsigned_abs() {
    let x: i8 = kani::any();
    let r = x.unsigned_abs();
    assert!(r as i32 == if x < 0 { -(x as i32) } else { x as i32 });
}

#[kani::proof]
fn std_i32_try_from_u32() {
    let x: u32 = kani::any();
    match i32::try_from(x) {
        Ok(v) => { assert!(x <= 0x7fff_ffff); assert!(v as i64 == x as i64); }
        Err(_) => assert!(x > 0x7fff_ffff),
    }
}
