//! Facts marked [K] in /verif/shim/chrono.rs, checked against the real chrono crate for EVERY date 1970-01-01 .. 2200-12-31
//! (symbolic year / month / day; loop-free, so complete over that domain).
use chrono::{Datelike, Days, NaiveDate};

/// rateslib's `ndt` (calendar.rs) is exactly this composition; written out so that the verdict depends on chrono only
fn ndt(y: i32, m: u32, d: u32) -> chrono::NaiveDateTime {
    NaiveDate::from_ymd_opt(y, m, d).unwrap().and_hms_opt(0, 0, 0).unwrap()
}

/// Howard Hinnant's days_from_civil: the model of `cal_dfc` (days since 1970-01-01)
fn dfc(y: i64, m: i64, d: i64) -> i64 {
    let y = if m <= 2 { y - 1 } else { y };
    let era = y / 400; // y >= 0 in the domain
    let yoe = y - era * 400;
    let mp = (m + 9) % 12;
    let doy = (153 * mp + 2) / 5 + d - 1;
    let doe = yoe * 365 + yoe / 4 - yoe / 100 + doy;
    era * 146097 + doe - 719468
}

fn dim(y: i64, m: i64) -> i64 {
    let leap = (y % 4 == 0 && y % 100 != 0) || y % 400 == 0;
    match m { 1 | 3 | 5 | 7 | 8 | 10 | 12 => 31, 4 | 6 | 9 | 11 => 30, _ => if leap { 29 } else { 28 } }
}

fn any_date() -> (i64, i64, i64) {
    let y: i64 = kani::any();
    let m: i64 = kani::any();
    let d: i64 = kani::any();
    kani::assume(1970 <= y && y <= 2200);
    kani::assume(1 <= m && m <= 12);
    kani::assume(1 <= d && d <= dim(y, m));
    (y, m, d)
}

/// view of a NaiveDateTime as a day number == cal_dfc; timestamp == 86400 * view; year/month/day/weekday accessors
#[kani::proof]
fn chrono_view_is_days_from_civil() {
    let (y, m, d) = any_date();
    let t = ndt(y as i32, m as u32, d as u32);
    let z = dfc(y, m, d);
    assert!(t.and_utc().timestamp() == 86400 * z);
    assert!(t.year() as i64 == y && t.month() as i64 == m && t.day() as i64 == d);
    assert!(t.weekday().num_days_from_monday() as i64 == (z + 3).rem_euclid(7));
    assert!(NaiveDate::from_ymd_opt(y as i32, m as u32, d as u32).is_some());
}

/// invalid day numbers are refused by from_ymd_opt (cal_valid is exactly chrono's validity in the domain)
#[kani::proof]
fn chrono_from_ymd_validity() {
    let y: i32 = kani::any();
    let m: u32 = kani::any();
    let d: u32 = kani::any();
    kani::assume(1970 <= y && y <= 2200 && m <= 13 && d <= 32);
    let valid = 1 <= m && m <= 12 && 1 <= d && (d as i64) <= dim(y as i64, m as i64);
    assert!(NaiveDate::from_ymd_opt(y, m, d).is_some() == valid);
}

/// `+ Days::new(k)` moves the day number by k (k up to a month; larger steps in the code under contract are i8 day counts
/// or repeated single-day steps)
#[kani::proof]
fn chrono_add_days() {
    let (y, m, d) = any_date();
    let k: u64 = kani::any();
    kani::assume(k <= 31);
    let t = ndt(y as i32, m as u32, d as u32);
    let z = dfc(y, m, d);
    let a = t + Days::new(k);
    assert!(a.and_utc().timestamp() == 86400 * (z + k as i64));
}

#[kani::proof]
fn chrono_sub_days() {
    let (y, m, d) = any_date();
    let k: u64 = kani::any();
    kani::assume(k <= 31);
    let t = ndt(y as i32, m as u32, d as u32);
    let z = dfc(y, m, d);
    let s = t - Days::new(k);
    assert!(s.and_utc().timestamp() == 86400 * (z - k as i64));
}
