//! [K] fact used by the contract of `Cal::new` (contracts/calendars.vx: vx_weekday_try_from).
/// chrono's `Weekday::try_from(u8)` (used by `Cal::new` for the week mask): 0 = Monday .. 6 = Sunday, every other byte
/// is an error.  Loop-free over all 256 bytes: complete.
#[kani::proof]
fn chrono_weekday_try_from_u8() {
    let v: u8 = kani::any();
    match chrono::Weekday::try_from(v) {
        Ok(w) => {
            assert!(v <= 6);
            assert!(w.num_days_from_monday() as u8 == v);
        }
        Err(_) => assert!(v > 6),
    }
}
