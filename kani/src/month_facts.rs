//! C08 on the REAL compiled rateslib functions that do not touch `PyErr`: `get_imm`, `is_imm`, `get_eom`, `is_eom`, `is_leap_year`
//! for EVERY (year, month) of 1970-2200 (and every day of the month for the two predicates).  `get_eom` has a loop of at most
//! three iterations (31 -> 28): unwinding bound 5 with unwinding assertions on, so the verdict is complete over the domain.
use chrono::Datelike;
use rateslib::calendars::{get_eom, get_imm, is_eom, is_imm, is_leap_year};

fn dim(y: i64, m: i64) -> i64 {
    let leap = (y % 4 == 0 && y % 100 != 0) || y % 400 == 0;
    match m { 1 | 3 | 5 | 7 | 8 | 10 | 12 => 31, 4 | 6 | 9 | 11 => 30, _ => if leap { 29 } else { 28 } }
}

fn any_ym() -> (i32, u32) {
    let y: i32 = kani::any();
    let m: u32 = kani::any();
    kani::assume(1970 <= y && y <= 2200 && 1 <= m && m <= 12);
    (y, m)
}

/// the IMM date of a month is its third Wednesday: a Wednesday with day 15..=21, in that month
#[kani::proof]
fn rateslib_get_imm_is_third_wednesday() {
    let (y, m) = any_ym();
    let d = get_imm(y, m);
    assert!(d.year() == y && d.month() == m);
    assert!(d.weekday() == chrono::Weekday::Wed);
    assert!(15 <= d.day() && d.day() <= 21);
}

/// is_imm holds exactly on that day
#[kani::proof]
fn rateslib_is_imm_exactly_third_wednesday() {
    let (y, m) = any_ym();
    let day: u32 = kani::any();
    kani::assume(1 <= day && (day as i64) <= dim(y as i64, m as i64));
    let d = chrono::NaiveDate::from_ymd_opt(y, m, day).unwrap().and_hms_opt(0, 0, 0).unwrap();
    let third_wed = d.weekday() == chrono::Weekday::Wed && 15 <= day && day <= 21;
    assert!(is_imm(&d) == third_wed);
}

/// the end-of-month date is the last day of the month; is_eom holds exactly on it; leap years follow the Gregorian rule
#[kani::proof]
#[kani::unwind(5)]
fn rateslib_get_eom_is_last_day() {
    let (y, m) = any_ym();
    let d = get_eom(y, m);
    assert!(d.year() == y && d.month() == m && d.day() as i64 == dim(y as i64, m as i64));
}

#[kani::proof]
#[kani::unwind(5)]
fn rateslib_is_eom_exactly_last_day() {
    let (y, m) = any_ym();
    let day: u32 = kani::any();
    kani::assume(1 <= day && (day as i64) <= dim(y as i64, m as i64));
    let d = chrono::NaiveDate::from_ymd_opt(y, m, day).unwrap().and_hms_opt(0, 0, 0).unwrap();
    assert!(is_eom(&d) == (day as i64 == dim(y as i64, m as i64)));
}

#[kani::proof]
fn rateslib_is_leap_year_gregorian() {
    let y: i32 = kani::any();
    kani::assume(1970 <= y && y <= 2200);
    let leap = (y % 4 == 0 && y % 100 != 0) || y % 400 == 0;
    assert!(is_leap_year(y) == leap);
}
