//! The ASSUMED contracts of row_swap / el_swap / argabsmax in /verif/contracts/linalg*.vx, checked on the real code
//! through the `verif_hooks` wrappers for every array of the stated sizes and every pair j < k (tier Kb: bounded by size).
use ndarray::{Array1, Array2};
use rateslib::dual::linalg::verif_hooks::{argabsmax, el_swap, row_swap};

const N: usize = 3;

#[kani::proof]
#[kani::unwind(5)]
fn row_swap_swaps_exactly_two_rows() {
    let vals: [i32; N * N] = kani::any();
    let mut a = Array2::from_shape_vec((N, N), vals.to_vec()).unwrap();
    let j: usize = kani::any();
    let k: usize = kani::any();
    kani::assume(j < k && k < N);
    row_swap(&mut a, &j, &k);
    for r in 0..N {
        let src = if r == j { k } else if r == k { j } else { r };
        for c in 0..N {
            assert!(a[[r, c]] == vals[src * N + c]);
        }
    }
}

#[kani::proof]
#[kani::unwind(6)]
fn el_swap_swaps_exactly_two_elements() {
    let vals: [i32; 4] = kani::any();
    let mut a = Array1::from_vec(vals.to_vec());
    let j: usize = kani::any();
    let k: usize = kani::any();
    kani::assume(j < k && k < 4);
    el_swap(&mut a, &j, &k);
    for r in 0..4 {
        let src = if r == j { k } else if r == k { j } else { r };
        assert!(a[r] == vals[src]);
    }
}

#[kani::proof]
#[kani::unwind(6)]
fn argabsmax_is_an_index_of_largest_abs() {
    let vals: [i16; 4] = kani::any();
    for v in vals.iter() {
        kani::assume(*v != i16::MIN);
    }
    let n: usize = kani::any();
    kani::assume(1 <= n && n <= 4);
    let a = Array1::from_vec(vals[..n].to_vec());
    let r = argabsmax(a.view());
    assert!(r < n);
    for i in 0..n {
        assert!(vals[i].abs() <= vals[r].abs());
    }
}
