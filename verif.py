#!/usr/bin/env python3
"""Driver of the /verif machinery.

    verif.py setup                       build tools (offline)
    verif.py check <Cxx> [--tier quick|thorough]
    verif.py unit <unit>                 build + verify one unit, print a summary (debugging aid)

Exit codes of `check`: 0 = every obligation of the property discharged (modulo KNOWN_FINDINGS),
1 = at least one obligation that is part of the committed baseline failed (VIOLATION line printed),
2 = undecided: tool problem, lost anchor, unsupported construct, rlimit, broken proof of a hand-written lemma.
"""
import argparse
import json
import os
import re
import subprocess
import sys
import time

ROOT = os.path.dirname(os.path.abspath(__file__))
sys.path.insert(0, ROOT)
from vxlib import unit as vxunit  # noqa: E402
from vxlib import config  # noqa: E402

REPO = vxunit.REPO
ENV = dict(os.environ, CARGO_NET_OFFLINE="true")

VERIF_MSG = (
    "postcondition not satisfied",
    "precondition not satisfied",
    "invariant not satisfied",
    "assertion failed",
    "possible arithmetic underflow/overflow",
    "possible division by zero",
    "decreases not satisfied",
    "possible bit shift underflow/overflow",
    "cannot show",
    "unreachable",
    "loop invariant",
    "failed this postcondition",
    "could not prove termination",
    "assertion not satisfied",
    "recommendation not met",
    "constructed value may fail to meet its declared type invariant",
    "possible truncation",
    "unable to prove",
)


def sh(cmd, **kw):
    return subprocess.run(cmd, capture_output=True, text=True, env=ENV, **kw)


def sh_timeout(cmd, limit_s, **kw):
    """Like sh(), but kills the whole process group (verus spawns z3 children) after limit_s seconds; returns None then."""
    import signal
    pr = subprocess.Popen(cmd, stdout=subprocess.PIPE, stderr=subprocess.PIPE, text=True, env=ENV, start_new_session=True, **kw)
    try:
        so, se = pr.communicate(timeout=limit_s)
    except subprocess.TimeoutExpired:
        try:
            os.killpg(pr.pid, signal.SIGKILL)
        except Exception:  # noqa
            pass
        try:
            pr.communicate(timeout=10)
        except Exception:  # noqa
            pass
        return None
    return subprocess.CompletedProcess(cmd, pr.returncode, so, se)


# --------------------------------------------------------------------------------------------- setup

def cmd_setup(_args):
    t0 = time.time()
    p = subprocess.run(
        ["cargo", "build", "--release", "--offline"],
        cwd=os.path.join(ROOT, "tools", "vx-extract"),
        env=dict(ENV, CARGO_TARGET_DIR=os.path.join(ROOT, ".cache", "target-vx")),
    )
    if p.returncode != 0:
        return 2
    if os.path.isdir(os.path.join(ROOT, "replay")):
        subprocess.run(["cp", os.path.join(REPO, "Cargo.lock"), os.path.join(ROOT, "replay", "Cargo.lock")])
        p = subprocess.run(["cargo", "build", "--release", "--offline"], cwd=os.path.join(ROOT, "replay"), env=ENV)
        if p.returncode != 0:
            return 2
    from vxlib import kani
    rc = kani.setup()
    print(f"setup done in {time.time()-t0:.0f}s")
    return rc


# --------------------------------------------------------------------------------------------- verus

def run_verus(unit_name, tier, seed):
    """Assemble + verify one unit. Returns a result dict."""
    t0 = time.time()
    try:
        meta = vxunit.assemble(unit_name)
    except vxunit.UnitError as e:
        return {"unit": unit_name, "fatal": f"assemble: {e}", "wall_s": time.time() - t0}
    if meta["errors"]:
        return {"unit": unit_name, "fatal": "extraction failed (lost anchor / unsupported construct): " + "; ".join(meta["errors"]), "meta": meta, "wall_s": time.time() - t0}
    rlimit = config.UNITS.get(unit_name, {}).get("rlimit", 10)
    if tier == "thorough":
        rlimit *= 5
    cmd = ["verus", meta["path"], "--triggers-mode", "silent", "--output-json", "--time", "--error-format=json",
           "--rlimit", str(rlimit), "--multiple-errors", "5", "--smt-option", f"smt.random_seed={seed}"]
    # hard wall-clock limit: some solver loops (nonlinear arithmetic) do not consume the resource limit; a hung query is undecided, not a hang
    limit_s = int(os.environ.get("VERIF_VERUS_TIMEOUT", "0")) or (2400 if tier == "thorough" else 600)
    p = sh_timeout(cmd, limit_s, cwd=os.path.dirname(meta["path"]))
    if p is None:
        # such loops depend on the solver's seed: one retry with another seed before giving up
        cmd = cmd[:-1] + [f"smt.random_seed={seed + 1000}"]
        p = sh_timeout(cmd, limit_s, cwd=os.path.dirname(meta["path"]))
    if p is None:
        return {"unit": unit_name, "fatal": f"verus did not finish within {limit_s} s under two solver seeds (solver loop that does not consume the resource limit): undecided", "meta": meta, "wall_s": time.time() - t0}
    # keep the last generated text of every unit at a stable place for inspection (atomic: concurrent checks write the same text)
    stable = os.path.join(ROOT, "build", unit_name + ".rs")
    try:
        import shutil
        shutil.copyfile(meta["path"], stable + f".{os.getpid()}.tmp")
        os.replace(stable + f".{os.getpid()}.tmp", stable)
    except OSError:
        pass
    out = {"unit": unit_name, "meta": meta, "cmd": " ".join(cmd).replace(meta["path"], stable), "rc": p.returncode}
    try:
        j = json.loads(p.stdout)
    except Exception:
        out["fatal"] = "verus produced no JSON: " + (p.stderr[-1500:] or p.stdout[-500:])
        out["wall_s"] = time.time() - t0
        return out
    vr = j.get("verification-results", {})
    out["verified"] = vr.get("verified", 0)
    out["errors"] = vr.get("errors", 0)
    out["vir_error"] = vr.get("encountered-vir-error", False)
    # per function
    funcs = {}
    smt_ms = 0
    for mod in j.get("times-ms", {}).get("smt", {}).get("smt-run-module-times", []):
        for fb in mod.get("function-breakdown", []):
            funcs[fb["function"]] = {"success": fb.get("success"), "ms": fb.get("time", 0), "rlimit": fb.get("rlimit", 0)}
            smt_ms += fb.get("time", 0)
    out["funcs"] = funcs
    out["smt_ms"] = smt_ms
    out["verus_total_ms"] = j.get("times-ms", {}).get("total", 0)
    out["verus_version"] = j.get("verus", {}).get("version", "?")
    # diagnostics
    diags = []
    for line in p.stderr.split("\n"):
        line = line.strip()
        if not line.startswith("{"):
            continue
        try:
            d = json.loads(line)
        except Exception:
            continue
        if d.get("level") != "error":
            continue
        msg = d.get("message", "")
        if msg.startswith("aborting due to"):
            continue
        spans = [s for s in d.get("spans", []) if s.get("file_name", "").endswith(unit_name + ".rs")]
        prim = [s for s in spans if s.get("is_primary")] or spans
        gl = prim[0]["line_start"] if prim else 0
        info = meta["linemap"][gl - 1] if 0 < gl <= len(meta["linemap"]) else {"kind": "?"}
        # owning extracted item: an item whose generated line range contains one of the diagnostic's spans;
        # items with a body are preferred (a failed trait-level contract clause is reported with a secondary
        # span inside the implementing function)
        item = None
        cand = []
        for sp in ([prim[0]] if prim else []) + [x for x in spans if not x.get("is_primary")]:
            for it in meta["extracted"]:
                if it["gen_lines"][0] <= sp["line_start"] <= it["gen_lines"][1]:
                    cand.append(it)
        with_body = [it for it in cand if it.get("has_body", True)]
        if with_body:
            item = with_body[0]["idx"]
        elif cand:
            item = cand[0]["idx"]
        is_verif = any(msg.startswith(m) or m in msg for m in VERIF_MSG)
        is_rlimit = "rlimit" in msg.lower() or "resource limit" in msg.lower()
        diags.append({
            "message": msg,
            "gen_line": gl,
            "text": (prim[0]["text"][0]["text"].strip() if prim and prim[0].get("text") else ""),
            "item": item,
            "info": info,
            "verification_failure": is_verif and not is_rlimit,
            "rlimit": is_rlimit,
            "all_spans": [(s["line_start"], s.get("label")) for s in spans],
            "failed_clause": next((s["text"][0]["text"].strip() for s in spans if (s.get("label") or "").startswith("failed precondition") and s.get("text")), None),
            "rendered": d.get("rendered", "")[:3000],
        })
    out["diags"] = diags
    out["stderr_tail"] = "\n".join(l for l in p.stderr.split("\n") if not l.startswith("{"))[-1500:]
    out["trusted"] = vxunit.trusted_scan(meta["path"])
    out["wall_s"] = time.time() - t0
    return out


SAFETY_MSG = ("possible arithmetic underflow/overflow", "possible division by zero", "possible bit shift", "possible truncation")


def is_safety_failure(d):
    m = d["message"]
    if any(m.startswith(x) for x in SAFETY_MSG):
        return True
    if m.startswith("precondition not satisfied"):
        fc = d.get("failed_clause") or ""
        return "@env" not in fc
    return False


def func_result(res, fn_name, sel=None):
    """verified functions whose last path segment is fn_name (and, for impl methods, whose type matches the selector)."""
    hits = [(k, v) for k, v in res.get("funcs", {}).items() if k.split("::")[-1] == fn_name]
    if sel and sel.startswith("impl "):
        head = sel.split("::")[0].strip()[5:].strip()
        ty = head.split(" for ")[-1].strip().split("#")[0].strip()
        ty = re.sub(r"<.*>", "", ty).lstrip("&").strip()
        q = [(k, v) for k, v in hits if len(k.split("::")) >= 2 and k.split("::")[-2] == ty]
        if q:
            return q
    return hits


# --------------------------------------------------------------------------------------------- findings

def load_known():
    known = []
    p = os.path.join(ROOT, "KNOWN_FINDINGS.txt")
    if os.path.exists(p):
        for l in open(p):
            l = l.strip()
            if l.startswith("known:"):
                m = re.match(r"known:\s+property=(\S+)\s+obligation=(\S+)\s+input=(.*?)\s+::\s+(.*)$", l)
                if m:
                    known.append({"property": m.group(1), "obligation": m.group(2), "input": m.group(3), "what": m.group(4)})
    return known


# --------------------------------------------------------------------------------------------- check

def cmd_check(args):
    pid = args.property
    tier = args.tier or os.environ.get("VERIF_TIER") or "quick"
    seed = int(os.environ.get("VERIF_SEED", "0") or 0)
    t0 = time.time()
    conf = config.CHECKS.get(pid)
    if conf is None:
        print(f"property {pid} has no check (see MANIFEST not_applicable)")
        return 2
    os.makedirs(os.path.join(ROOT, "evidence"), exist_ok=True)
    os.makedirs(os.path.join(ROOT, "replays"), exist_ok=True)
    ev_path = os.path.join(ROOT, "evidence", pid + ".json")

    undecided = []   # strings
    violations = []  # dicts
    known_hits = []
    obligations = []  # dicts {name, tier, backend, status, ms}
    trusted = []
    fn_under_contract = []
    rules = {}
    samples = []
    checker_cmds = []
    solver_s = {"verus-z3": 0.0, "kani-cbmc": 0.0, "verus-compiled-exec": 0.0}
    guards = {}
    bounded = []
    known = [k for k in load_known() if k["property"] == pid]

    # ---- Verus units
    # dependency units: units holding the contracts of the functions this property's code CALLS.  Every obligation in them counts
    # for this property whatever its tags (modular verification notices a change in a callee only through the callee's own
    # obligation, so the check has to run it: DESIGN 12 item 10l)
    dep_units = list(conf.get("dep_units", []))
    seen_dep = set()
    seen_viol = set()
    all_units = list(conf.get("units", [])) + [u for u in dep_units if u not in conf.get("units", [])]
    for un in all_units:
        dep = un in dep_units
        res = run_verus(un, tier, seed)
        if tier == "thorough" and "fatal" not in res:
            # stability: the same unit under two more solver seeds must give the same set of failing functions;
            # a disagreement is a solver artefact (undecided), never a violation
            def _failset(r):
                return sorted(k for k, v in r.get("funcs", {}).items() if v.get("success") is False)
            base_fail = _failset(res)
            for extra_seed in (seed + 1, seed + 2):
                r2 = run_verus(un, tier, extra_seed)
                if "fatal" in r2 or _failset(r2) != base_fail:
                    undecided.append(f"unit {un}: verdict differs between solver seeds {seed} and {extra_seed} (unstable query): " + ", ".join(sorted(set(base_fail) ^ set(_failset(r2))))[:300])
                    break
            guards[f"{un}: same verdict under 3 solver seeds"] = not any(u.startswith(f"unit {un}: verdict differs") for u in undecided)
        if "fatal" in res:
            # extraction failed (lost anchor / construct the extractor does not know): the functions concerned have left the
            # verifier's reach.  Same bounded stand-in as for front-end errors below: probe search on the real code; only a
            # concrete counterexample is a violation.
            found_any = False
            for fl in (res.get("meta") or {}).get("failed", [])[:3]:
                if pid not in {p_.split(":")[0] for p_ in fl["props"]} and not dep:
                    continue
                from vxlib import replay as _rp
                fin = _rp.run_probe(fl["fn_name"])
                bounded.append({"harness": f"probe::{fl['fn_name']}", "bound": "deterministic probe grid of replay/src (see probe_*.rs)", "status": "failed" if fin else "no counterexample",
                                "what": f"bounded stand-in: {fl['file']} :: {fl['sel']} could not be extracted ({str(fl['error'])[:120]})"})
                if fin:
                    found_any = True
                    qual = ("<" + fl["sel"].split("::")[0].strip()[5:].strip() + ">::") if fl["sel"].startswith("impl ") else ""
                    violations.append({"obligation": f"{un}::{qual}{fl['fn_name']}",
                                       "kind": "function outside the verifier's reach (extraction failed); bounded probe on the real code found a counterexample",
                                       "where": fl["file"], "code": "", "verifier_output": str(fl["error"])[:400],
                                       "counterexample": fin, "item": None, "unit": un, "bounded": True})
            if not found_any:
                undecided.append(f"unit {un}: {res['fatal']}")
            continue
        checker_cmds.append(res["cmd"])
        meta = res["meta"]
        solver_s["verus-z3"] += res["smt_ms"] / 1000.0
        for t in res["trusted"]:
            if t not in trusted:
                trusted.append(t)
        # canary must fail
        can = func_result(res, "vx_canary")
        canary_ok = bool(can) and all(v["success"] is False for _, v in can)
        guards[f"{un}: canary `ensures false` rejected"] = canary_ok
        if not canary_ok:
            undecided.append(f"unit {un}: canary was not rejected (inconsistent axioms or verus did not run)")
        # non-verification errors (type errors, unsupported constructs, ...) => undecided
        hard = [d for d in res["diags"] if not d["verification_failure"] and not (d["info"].get("origin") == "<canary>")]
        if hard or res.get("vir_error"):
            # The generated unit no longer passes Verus' front end.  If the offending construct sits inside an extracted
            # function that serves this property, that function has left the verifier's reach: a BOUNDED stand-in (the
            # deterministic probe search of the replay crate, run on the real compiled code against an oracle written
            # from the property) is tried.  A counterexample found there is a violation (it is replayed on the real
            # code); otherwise the check stays undecided.  Never counted as proved.
            from vxlib import replay as _rp
            hit_items = []
            for d in hard:
                if d["item"] is not None:
                    it = meta["extracted"][d["item"]]
                    modes = {p_.split(":")[0] for p_ in it["props"]}
                    if (pid in modes or dep) and it not in hit_items:
                        hit_items.append(it)
            found_any = False
            hit_items = [it for it in hit_items if ("fe", it["file"], it["sel"], it["fn_name"]) not in seen_viol]
            for it in hit_items[:3]:
                seen_viol.add(("fe", it["file"], it["sel"], it["fn_name"]))
                fin = _rp.run_probe(it["fn_name"])
                bounded.append({"harness": f"probe::{it['fn_name']}", "bound": "deterministic probe grid of replay/src (see probe_*.rs)", "status": "failed" if fin else "no counterexample",
                                "what": f"bounded stand-in: {it['file']} :: {it['sel']} uses a construct outside the verifier's reach ({hard[0]['message'][:120]})"})
                if fin:
                    found_any = True
                    violations.append({"obligation": f"{un}::{it['fn_name']}" if not it["sel"].startswith("impl ") else f"{un}::<{it['sel'].split('::')[0].strip()[5:].strip()}>::{it['fn_name']}",
                                       "kind": "function outside the verifier's reach (unsupported construct); bounded probe on the real code found a counterexample",
                                       "where": f"{it['file']}:{it['src_lines'][0]}", "code": "", "verifier_output": "; ".join(d["message"] for d in hard[:3]),
                                       "counterexample": fin, "item": it, "unit": un, "bounded": True})
            if not found_any:
                undecided.append(f"unit {un}: front-end / non-verification error: " + "; ".join(f"{d['message']} @gen:{d['gen_line']}" for d in hard[:5]) + ("" if hard else res.get("stderr_tail", "")[-600:]))
            continue
        # map failures
        fail_by_item = {}
        lemma_fail = []
        for d in res["diags"]:
            if d["info"].get("origin") == "<canary>":
                continue
            if d["item"] is not None:
                fail_by_item.setdefault(d["item"], []).append(d)
            else:
                lemma_fail.append(d)
        # obligations from extracted items
        for it in meta["extracted"]:
            modes = {p.split(":")[0]: (p.split(":")[1] if ":" in p else "full") for p in it["props"]}
            is_dependency = pid not in modes
            if pid not in modes:
                if not dep:
                    continue
                # a dependency item counts once (a unit stacked on another repeats its items) and with the strongest mode
                # any property gives it
                if (it["file"], it["sel"], it["fn_name"]) in seen_dep:
                    continue
                modes[pid] = conf.get("dep_mode") or ("full" if (not modes or "full" in modes.values()) else "safety")
            seen_dep.add((it["file"], it["sel"], it["fn_name"]))
            safety_only = modes[pid] == "safety"
            qual = ""
            if it["sel"].startswith("impl "):
                qual = "<" + it["sel"].split("::")[0].strip()[5:].strip() + ">::"
            name = f"{un}::{qual}{it['fn_name']}" + (" [no-abort obligations]" if safety_only else "")
            fr = func_result(res, it["fn_name"], it["sel"])
            has_body = any(True for _ in fr)
            ms = sum(v["ms"] for _, v in fr)
            fails = fail_by_item.get(it["idx"], [])
            if safety_only:
                # only abort-relevant obligations count: overflow, division by zero, preconditions of callees
                # (unwrap/expect/vx_panic/index/...) except clauses marked `@env` (existence assumptions about the calendar)
                fails = [d for d in fails if is_safety_failure(d)]
                ok = not fails
            else:
                ok = (not fails) and all(v["success"] for _, v in fr)
            fn_under_contract.append({
                "function": f"{it['file']}:{it['src_lines'][0]}-{it['src_lines'][1]} {it['sel']}",
                "tier": "V" if has_body else "V(signature contract only: required trait method, assumed for every implementor)",
                "token_hash": it["token_hash"],
                "rules": it["rules"],
                **({"decision_rule": "identity: a failed obligation is reported as a violation only with a discrepancy found by the probe of the real code against the closed form, otherwise undecided (DESIGN 4.1)"} if it.get("identity") else {}),
            })
            for k, v in it["rules"].items():
                rules[k] = rules.get(k, 0) + v
            if not has_body:
                # required method: contributes a contract, not an obligation
                continue
            ob = {"name": name, "backend": "verus-z3", "tier": "V", "status": "discharged" if ok else "failed", "ms": ms,
                  "source": f"{it['file']}:{it['src_lines'][0]}"}
            obligations.append(ob)
            if not ok:
                if not fails:
                    undecided.append(f"{name}: function reported unsuccessful without a located verification failure")
                    continue
                for d in fails:
                    src_line = d["info"].get("src_line", 0)
                    # a unit stacked on another repeats its items: one report per function body and failed clause
                    vkey = (it["file"], it["sel"], it["fn_name"], d["message"], src_line)
                    if vkey in seen_viol:
                        continue
                    seen_viol.add(vkey)
                    violations.append({
                        "obligation": name,
                        "kind": d["message"],
                        "where": f"{it['file']}:{src_line}" if src_line else f"contract of {it['sel']} ({it['vx']})",
                        "code": d["text"],
                        "verifier_output": d["rendered"],
                        "item": it,
                        "unit": un,
                        "dependency": is_dependency,
                        "owners": sorted(p_.split(":")[0] for p_ in it["props"]),
                    })
        # obligations from lemmas
        failed_lemma_lines = set(d["gen_line"] for d in lemma_fail)
        for lm in meta["lemmas"]:
            if pid not in lm["props"] and not dep:
                continue
            fr = func_result(res, lm["name"])
            if pid not in lm["props"]:
                # dependency unit: proved lemmas count once; `external_body` axioms have no verification result (they are
                # assumptions, listed in the trusted base) and are not obligations
                if not fr or ("lemma", lm["name"]) in seen_dep:
                    continue
                seen_dep.add(("lemma", lm["name"]))
            ok = bool(fr) and all(v["success"] for _, v in fr)
            obligations.append({"name": f"{un}::{lm['name']} (lemma over contracts)", "backend": "verus-z3", "tier": "V", "status": "discharged" if ok else "failed",
                                "ms": sum(v["ms"] for _, v in fr), "source": f"{lm['origin']}:{lm['line']}"})
            if not ok:
                undecided.append(f"lemma {un}::{lm['name']} did not verify (hand-written proof, independent of /repo: proof problem, not a violation)")
        if lemma_fail:
            # failures located in hand-written text that are not tagged lemmas of this property
            for d in lemma_fail:
                nm = d["info"].get("origin", "?")
                undecided.append(f"unit {un}: verification failure in hand-written text {nm}:{d['info'].get('line')} ({d['message']})")
        samples.extend([o["name"] for o in obligations[:3]])

    # ---- Kani harnesses
    kres = None
    if conf.get("kani") and os.environ.get("VERIF_SKIP_KANI") == "1":
        # developer switch for fast mutation loops: the Kani harnesses are NOT run and the check is therefore undecided at best
        undecided.append("VERIF_SKIP_KANI=1: Kani harnesses skipped (developer mode, not a valid check run)")
    elif conf.get("kani"):
        from vxlib import kani
        kres = kani.run_harnesses(pid, conf["kani"], tier)
        for h in kres["harnesses"]:
            solver_s["kani-cbmc"] += h.get("seconds", 0)
            ob = {"name": f"kani::{h['name']}", "backend": "kani-cbmc", "tier": h["tier"], "status": h["status"], "ms": int(h.get("seconds", 0) * 1000), "bound": h.get("bound")}
            if h["tier"] == "Kb":
                bounded.append({"harness": h["name"], "bound": h.get("bound"), "status": h["status"], "what": h.get("what")})
            else:
                obligations.append(ob)
            if h["status"] == "failed":
                violations.append({"obligation": f"kani::{h['name']}", "kind": "kani: " + h.get("failed_checks", "check failed"), "where": h.get("where", ""),
                                   "code": "", "verifier_output": h.get("output_tail", ""), "counterexample": h.get("counterexample"), "item": None, "unit": "kani"})
            elif h["status"] == "undecided":
                undecided.append(f"kani harness {h['name']}: {h.get('reason','')}")
        checker_cmds.extend(kres.get("cmds", []))
        for t in kres.get("trusted", []):
            if t not in trusted:
                trusted.append(t)
        guards.update(kres.get("guards", {}))

    # ---- extra engines (executed verified checkers etc.)
    extra_cov = {}
    if conf.get("extra"):
        mod = __import__("vxlib." + conf["extra"], fromlist=["run"])
        xr = mod.run(pid, tier, seed)
        for o in xr.get("obligations", []):
            obligations.append(o)
        violations.extend(xr.get("violations", []))
        undecided.extend(xr.get("undecided", []))
        checker_cmds.extend(xr.get("cmds", []))
        for t in xr.get("trusted", []):
            if t not in trusted:
                trusted.append(t)
        for k, v in xr.get("solver_s", {}).items():
            solver_s[k] = solver_s.get(k, 0) + v
        guards.update(xr.get("guards", {}))
        extra_cov = xr.get("coverage", {})
        # bounded stand-ins are reported under coverage.bounded only: never obligations, never discharged
        bounded.extend(xr.get("bounded_items", []))
        samples.extend(xr.get("samples", []))

    # ---- baseline: only obligations discharged on the unchanged tree may be reported as violated
    base_path = os.path.join(ROOT, "contracts", "baseline_obligations.json")
    baseline = json.load(open(base_path)) if os.path.exists(base_path) else {}
    base = set(baseline.get(pid, []))
    names = set(o["name"] for o in obligations) | set(b["harness"] and "kani::" + b["harness"] for b in bounded)
    if args.update_baseline:
        if violations or undecided:
            print("refusing to update baseline: check is not clean")
        else:
            baseline[pid] = sorted(names)
            json.dump(baseline, open(base_path, "w"), indent=1, sort_keys=True)
            print(f"baseline for {pid}: {len(names)} obligations")
        base = names
    missing = sorted(base - names)
    if missing and not undecided:
        undecided.append("obligations of the baseline missing from this run: " + ", ".join(missing[:6]))
    guards["obligation count >= baseline"] = not missing

    # one violation per obligation (merge the diagnostics of the same function)
    merged = {}
    for v in violations:
        if v["obligation"] in merged:
            m = merged[v["obligation"]]
            m["kind"] += " | " + v["kind"]
            m["verifier_output"] = (m.get("verifier_output") or "") + "\n" + (v.get("verifier_output") or "")
            m["code"] = (m.get("code") or "") + " | " + (v.get("code") or "")
        else:
            merged[v["obligation"]] = dict(v)
    violations = list(merged.values())
    real_violations = []
    for v in violations:
        if base and v["obligation"] not in base and not v.get("bounded"):
            undecided.append(f"{v['obligation']} failed but is not in the committed baseline (never discharged on the unchanged tree): {v['kind']}")
            continue
        kf = [k for k in known if k["obligation"] == v["obligation"] and (k["input"] in (v.get("code") or "") or k["input"] in json.dumps(v.get("counterexample") or "") or k["input"] == v["where"])]
        if kf:
            known_hits.append((kf[0], v))
        else:
            real_violations.append(v)

    # ---- replay files
    vio_lines = []
    if real_violations:
        from vxlib import replay
        for v in real_violations:
            path, found = replay.make_replay(pid, v, tier)
            if not found and (v.get("item") or {}).get("identity") and replay.LAST_PROBE_CASES > 0:
                # `//@ opt identity`: the postcondition of this function is a closed-form identity over the reals (a wrong
                # formula differs from the right one almost everywhere), and the probe of the real code against the closed
                # form -- values, gradients, Hessians on its whole grid -- found no discrepancy.  A proof that no longer
                # goes through after an algebraic rearrangement is solver incompleteness on nonlinear real arithmetic far more
                # often than a defect: undecided, not a violation.  (With a discrepancy found it IS reported, with the input.)
                undecided.append(f"{v['obligation']}: no longer proved ({v['kind']}) but the identity probe of the real code against the closed form found no discrepancy in {replay.LAST_PROBE_CASES} cases: re-prove by hand (replay file {path})")
                continue
            if not found and v.get("dependency"):
                # an obligation of a DEPENDENCY unit (a callee of this property's code, tagged for other properties): that it no
                # longer verifies is reported by the owning properties' checks under their own rule.  For THIS property it is a
                # violation only with a failing input replayed on the real code; without one the caller's proof has lost a
                # premise and the check is undecided, not alarmed.
                undecided.append(f"{v['obligation']}: dependency obligation (owned by {', '.join(v.get('owners') or []) or 'no property'}) no longer proved ({v['kind']}) and no failing input was found on the real code: undecided for {pid} (replay file {path})")
                continue
            vio_lines.append(f"VIOLATION property={pid} replay={path}" + ("" if found else " no-failing-input-found"))

    if not obligations and not bounded and not undecided:
        undecided.append("no obligations were generated for this property (vacuity guard)")
    n_obl = len(obligations)
    n_dis = sum(1 for o in obligations if o["status"] == "discharged")
    level = conf.get("level", "proof")
    coverage = {
        "obligations": n_obl,
        "discharged": n_dis,
        "checker_cmd": " && ".join(checker_cmds) if checker_cmds else "none",
        "trusted_base": trusted,
        "obligation_list": [{k: o[k] for k in ("name", "backend", "tier", "status", "ms") if k in o} for o in obligations],
        "functions_under_contract": fn_under_contract,
        "by_backend": {b: {"obligations": sum(1 for o in obligations if o["backend"] == b), "discharged": sum(1 for o in obligations if o["backend"] == b and o["status"] == "discharged"), "solver_s": round(solver_s.get(b, 0), 2)} for b in solver_s},
        "rewrite_rules_applied": rules,
        "bounded": bounded,
        "uncovered_subclaims": conf.get("uncovered", []),
        "vacuity_guards": guards,
        "samples": samples[:6] or ["(none)"],
        "known_findings_matched": [k["what"] for k, _ in known_hits],
        "undecided": undecided,
        "explanation": conf.get("explanation", ""),
    }
    coverage.update(extra_cov)
    ev = {
        "property_id": pid,
        "tier": tier,
        "seed": seed,
        "level": level,
        "coverage": coverage,
        "assumptions": conf.get("assumptions", []) + config.COMMON_ASSUMPTIONS + ([config.DEP_UNITS_NOTE + ": " + ", ".join(conf["dep_units"])] if conf.get("dep_units") else []),
        "wall_s": round(time.time() - t0, 2),
        "violations": len(vio_lines),
    }
    with open(ev_path, "w") as f:
        json.dump(ev, f, indent=1)

    for k, v in known_hits:
        print(f"KNOWN-FINDING: property={pid} {k['what']} [{v['obligation']}]")
    print(f"{pid} [{tier}] obligations={n_obl} discharged={n_dis} bounded={len(bounded)} violations={len(vio_lines)} undecided={len(undecided)} wall={ev['wall_s']}s")
    if vio_lines:
        for l in vio_lines:
            print(l)
        return 1
    if undecided:
        for u in undecided:
            print("UNDECIDED: " + u[:600])
        return 2
    return 0


def cmd_unit(args):
    res = run_verus(args.unit, "quick", 0)
    if "fatal" in res:
        print("FATAL", res["fatal"])
        return 2
    print(f"verified={res['verified']} errors={res['errors']} smt={res['smt_ms']}ms wall={res['wall_s']:.1f}s")
    for d in res["diags"]:
        print(f"  {d['message']} @gen:{d['gen_line']} item={d['item']} {d['info']} :: {d['text'][:100]}")
    slow = sorted(res["funcs"].items(), key=lambda kv: -kv[1]["ms"])[:8]
    for k, v in slow:
        print(f"  {v['ms']:6d}ms {k} {'ok' if v['success'] else 'FAIL'}")
    if args.verbose:
        print(res["stderr_tail"])
    return 0


def _cleanup_run_dir():
    import shutil
    shutil.rmtree(os.path.join(ROOT, "build", f"run-{os.getpid()}"), ignore_errors=True)


def main():
    import atexit
    atexit.register(_cleanup_run_dir)
    ap = argparse.ArgumentParser()
    sub = ap.add_subparsers(dest="cmd")
    sub.add_parser("setup")
    c = sub.add_parser("check")
    c.add_argument("property")
    c.add_argument("--tier", choices=["quick", "thorough"])
    c.add_argument("--update-baseline", action="store_true")
    u = sub.add_parser("unit")
    u.add_argument("unit")
    u.add_argument("-v", "--verbose", action="store_true")
    args = ap.parse_args()
    if args.cmd == "setup":
        sys.exit(cmd_setup(args))
    if args.cmd == "check":
        sys.exit(cmd_check(args))
    if args.cmd == "unit":
        sys.exit(cmd_unit(args))
    ap.print_help()
    sys.exit(2)


if __name__ == "__main__":
    main()
