"""Python twins of the rule sets of c07/template.rs -- used ONLY to locate a concrete offending date for the replay file
after the executed verified checker has reported a failed check (the decision is never made here)."""
import datetime


def dfc(y, m, d):
    return (datetime.date(y, m, d) - datetime.date(1970, 1, 1)).days


def date(z):
    return datetime.date(1970, 1, 1) + datetime.timedelta(days=z)


def easter(y):
    a = y % 19; b = y // 100; c = y % 100; d = b // 4; e = b % 4; f = (b + 8) // 25; g = (b - f + 1) // 3
    h = (19 * a + b - d - g + 15) % 30; i = c // 4; k = c % 4; l = (32 + 2 * e + 2 * i - h - k) % 7; m = (a + 11 * h + 22 * l) // 451
    mo = (h + l - 7 * m + 114) // 31; da = ((h + l - 7 * m + 114) % 31) + 1
    return dfc(y, mo, da)


def fixed(z, m, dd):
    d = date(z); return d.month == m and d.day == dd


def east(z, n):
    return z == easter(date(z).year) + n


def nth(z, m, wd, lo, hi):
    d = date(z); return d.month == m and d.weekday() == wd and lo <= d.day <= hi


def s2m(z, m, dd):
    return (fixed(z, m, dd) and date(z).weekday() != 6) or (fixed(z - 1, m, dd) and date(z - 1).weekday() == 6)


def nearest(z, m, dd):
    return (fixed(z, m, dd) and date(z).weekday() < 5) or (fixed(z - 1, m, dd) and date(z - 1).weekday() == 6) or (fixed(z + 1, m, dd) and date(z + 1).weekday() == 5)


def nextmon(z, m, dd):
    return (fixed(z, m, dd) and date(z).weekday() < 5) or (fixed(z - 1, m, dd) and date(z - 1).weekday() == 6) or (fixed(z - 2, m, dd) and date(z - 2).weekday() == 5)


def nextmontue(z, m, dd):
    return (fixed(z, m, dd) and 1 <= date(z).weekday() <= 4) or (fixed(z - 2, m, dd) and date(z - 2).weekday() in (5, 6)) or (fixed(z - 1, m, dd) and date(z - 1).weekday() == 0)


def us(z, gf):
    y = date(z).year
    return (s2m(z, 1, 1) or (y >= 1986 and nth(z, 1, 0, 15, 21)) or nth(z, 2, 0, 15, 21) or (gf and east(z, -2)) or nth(z, 5, 0, 25, 31)
            or (y >= 2022 and s2m(z, 6, 19)) or nearest(z, 7, 4) or nth(z, 9, 0, 1, 7) or nth(z, 10, 0, 8, 14) or s2m(z, 11, 11)
            or nth(z, 11, 3, 22, 28) or nearest(z, 12, 25) or z == 17870)


def ldn(z):
    return (nextmon(z, 1, 1) or east(z, -2) or east(z, 1) or (nth(z, 5, 0, 1, 7) and (z < 18262 or z >= 18628)) or z == 18390
            or (nth(z, 5, 0, 25, 31) and (z <= 19113 or z >= 19174)) or z in (19145, 19146, 19254, 19485) or nth(z, 8, 0, 25, 31)
            or nextmon(z, 12, 25) or nextmontue(z, 12, 26))


RULES = {
    "tgt": lambda z: fixed(z, 1, 1) or east(z, -2) or east(z, 1) or fixed(z, 5, 1) or fixed(z, 12, 25) or fixed(z, 12, 26),
    "nyc": lambda z: us(z, True),
    "fed": lambda z: us(z, False),
    "ldn": ldn,
    "stk": lambda z: fixed(z, 1, 1) or fixed(z, 1, 6) or east(z, -2) or east(z, 1) or fixed(z, 5, 1) or east(z, 39) or fixed(z, 6, 6) or nth(z, 6, 4, 19, 25) or fixed(z, 12, 24) or fixed(z, 12, 25) or fixed(z, 12, 26) or fixed(z, 12, 31),
    "osl": lambda z: fixed(z, 1, 1) or east(z, -3) or east(z, -2) or east(z, 1) or fixed(z, 5, 1) or fixed(z, 5, 17) or east(z, 39) or east(z, 50) or fixed(z, 12, 24) or fixed(z, 12, 25) or fixed(z, 12, 26),
    "zur": lambda z: fixed(z, 1, 1) or fixed(z, 1, 2) or east(z, -2) or east(z, 1) or fixed(z, 5, 1) or east(z, 39) or east(z, 50) or fixed(z, 8, 1) or fixed(z, 12, 25) or fixed(z, 12, 26),
}
