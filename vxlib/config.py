"""Static configuration: which units / harnesses decide which property."""

UNITS = {
    "dateroll": {"rlimit": 20},
    "dual_core": {"rlimit": 30},
    "dual_ops": {"rlimit": 50},
}

COMMON_ASSUMPTIONS = [
    "Verus 0.2026.09.13 + its Z3, rustc front end; Kani 0.68 + CBMC 6.11 where used",
    "tools/vx-extract copies each function's text from /repo on every run; rewrite rules applied are counted under coverage.rewrite_rules_applied; contract splices are add-only (checked by the extractor)",
    "trait/impl headers and data type declarations around the extracted functions are written by hand in contracts/*.vx (derives, #[pyclass] and doc attributes dropped)",
    "every item listed under coverage.trusted_base (external_body / assume_specification / axiom_* / uninterp) is an assumed contract on a dependency, not proved",
]

CHRONO_ASSUMPTIONS = [
    "chrono shim (shim/chrono.rs): NaiveDateTime viewed as day number; every NaiveDateTime is at 00:00:00; Gregorian axioms on cal_dfc/cal_y/cal_m/cal_d; `+/- Days` panics iff the result leaves chrono's range",
    "an eligible day exists in the search direction inside chrono's range (has_fwd/has_bwd preconditions): without it the real loops end in chrono's overflow panic; implied by a finite holiday set and a working weekday inside the range",
]

CHECKS = {
    "C04": {
        "units": ["dateroll"],
        "level": "proof",
        "assumptions": CHRONO_ASSUMPTIONS + [
            "dynamic dispatch `&dyn DateRoll` replaced by static `&impl DateRoll1` (R7); no implementor overrides a default method",
        ],
        "uncovered": [
            "the concrete implementors (Cal, UnionCal, NamedCal) satisfy the abstract calendar interface: covered under C06",
        ],
    },
    "C05": {
        "units": ["dateroll"],
        "level": "proof",
        "assumptions": CHRONO_ASSUMPTIONS + [
            "the n-th business day (and, with settlement, an eligible day beyond it) exists inside chrono's range (add_bus_pre / lag_pre); bus_date_range additionally needs a business day after `end` (the real loop computes it)",
        ],
        "uncovered": [],
    },
    "C08": {
        "units": ["dateroll"],
        "level": "proof",
        "assumptions": CHRONO_ASSUMPTIONS + [
            "specs of i32::abs / signum / rem_euclid / TryFrom (shim/intspecs.rs)",
            "the target year lies in chrono's representable range (the property's 1970-2200 is inside it)",
        ],
        "uncovered": [],
    },
    "C20": {
        "units": ["dateroll"],
        "level": "proof",
        "assumptions": CHRONO_ASSUMPTIONS,
        "uncovered": [
            "JSON text handling (serde_json), Ccy::try_new (global interner), NamedCal::try_new string handling: outside both verifiers' reach (DESIGN.md §7 C20)",
        ],
    },
}
