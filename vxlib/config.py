"""Static configuration: which units / harnesses decide which property."""

UNITS = {
    "dateroll": {"rlimit": 20},
    "dual_core": {"rlimit": 30},
    "dual_ops": {"rlimit": 50},
    "curves": {"rlimit": 50},
    "splines": {"rlimit": 50},
    "calendars": {"rlimit": 30},
    "linalg": {"rlimit": 50},
    "linalg_f64": {"rlimit": 50},
    "fx": {"rlimit": 200},
    "ppspline": {"rlimit": 50},
    "splines_dual": {"rlimit": 50},
}

COMMON_ASSUMPTIONS = [
    "Verus 0.2026.09.13 + its Z3, rustc front end; Kani 0.68 + CBMC 6.11 where used",
    "tools/vx-extract copies each function's text from /repo on every run; rewrite rules applied are counted under coverage.rewrite_rules_applied; contract splices are add-only (checked by the extractor)",
    "trait/impl headers and data type declarations around the extracted functions are written by hand in contracts/*.vx (derives, #[pyclass] and doc attributes dropped)",
    "every item listed under coverage.trusted_base (external_body / assume_specification / axiom_* / uninterp) is an assumed contract on a dependency, not proved",
]

CHRONO_ASSUMPTIONS = [
    "chrono shim (shim/chrono.rs): NaiveDateTime viewed as day number; every NaiveDateTime is at 00:00:00; Gregorian axioms on cal_dfc/cal_y/cal_m/cal_d; `+/- Days` panics iff the result leaves chrono's range",
    "an eligible day exists in the search direction inside chrono's range (has_fwd/has_bwd preconditions): without it the real loops end in chrono's overflow panic; implied by a finite holiday set and a working weekday inside the range",
]

DEP_UNITS_NOTE = "dependency units (`dep_units` in vxlib/config.py): the units holding the contracts of the functions this property's code calls are run as part of this check and EVERY obligation in them counts for this property, whatever property it is tagged for - a change inside a callee fails the callee's own obligation, and that obligation is run here; a failed dependency obligation is reported as a violation of THIS property only with a failing input replayed on the real code - without one the check is undecided (exit 2), the owning property's check reports it under its own rule"
IDENTITY_RULE_GENERAL = "decision rule for functions marked `identity` in the contracts (arithmetic identities: operator bodies, elementary functions, closed forms, basis functions, solver kernels): when one of their obligations stops verifying after a change it is reported as a violation only if the probe of the real code against its independent oracle finds a discrepancy; if the probe ran and found none the run is undecided (exit 2) - a nonlinear identity the solver cannot re-derive after an algebraic rearrangement is not evidence of a defect (DESIGN 4.1)"

DUAL_ASSUMPTIONS = [
    "R6: f64 is modelled by R64 with mathematical real arithmetic (rounding, NaN, inf, signed zero dropped); division requires a non-zero divisor",
    "shim/collections.rs: String is an abstract name; IndexSet<String> is a duplicate-free sequence with first-occurrence from_iter / union; iterator adapters specified eagerly (closures in the extracted code are pure)",
    "shim/ndarray.rs: Array1/Array2 element-wise operators, zeros/ones/from_vec/clone/t()/view()/into_shape_with_order as documented by ndarray",
    "Arc is transparent; Arc::ptr_eq is an uninterpreted boolean that implies equal contents",
    "R3: the trait impls that auto_ops' impl_op*! macros generate around each closure are re-generated from the macro's documented scheme (forwarders), not taken from its expansion",
    "#[derive(Clone)] on Dual/Dual2/VarsRelationship is the field-wise clone written out in spec/dualview.rs",
    IDENTITY_RULE_GENERAL,
]


AD_ASSUMPTIONS = [
    "oracle: the textbook forward-mode rules of spec/ad.rs; exp, ln, x^p, Phi, Phi^-1, sqrt, pi are uninterpreted real functions; assumed facts: x^2 = x*x, x^-1 = 1/x, x^-2 = 1/x^2, x^-3 = 1/x^3 (x != 0), sqrt(2 pi) > 0; phi(x) = exp(-x^2/2)/sqrt(2 pi) and 1/phi(x) = sqrt(2 pi) exp(x^2/2) are the definitions used for the normal density",
    "that d/dx exp = exp, d/dx ln = 1/x, d/dx x^p = p x^(p-1), Phi' = phi, (Phi^-1)' = 1/phi(Phi^-1) is calculus, taken as the oracle and not derived from limits",
]


IDENTITY_RULE = "decision rule for the nine closed-form interpolation functions (marked `identity` in contracts/curves.vx): when one of their obligations stops verifying after a change, it is reported as a violation only if the probe of the real code against the closed form (values, gradients, Hessians on its grid) finds a discrepancy; otherwise the run is undecided (exit 2), because a nonlinear identity the solver cannot re-derive after an algebraic rearrangement is not evidence of a defect"

CURVE_UNCOVERED = [
    "the log-cubic (spline) interpolator and the null interpolator",
]

SPLINE_UNCOVERED = []

CHECKS = {
    "C04": {
        "units": ["dateroll", "calendars"],
        "kani": {"quick": ["chrono_view_is_days_from_civil", "chrono_from_ymd_validity"], "thorough": ["chrono_view_is_days_from_civil", "chrono_from_ymd_validity", "chrono_add_days", "chrono_sub_days"]},
        "level": "proof",
        "assumptions": CHRONO_ASSUMPTIONS + [
            "dynamic dispatch `&dyn DateRoll` replaced by static `&impl DateRoll1` (R7); no implementor overrides a default method",
        ],
        "uncovered": [
            "the concrete implementors (Cal, UnionCal, NamedCal) satisfy the abstract calendar interface: covered under C06",
        ],
    },
    "C05": {
        "units": ["dateroll", "calendars"],
        "kani": {"quick": ["std_i8_unsigned_abs", "chrono_view_is_days_from_civil", "chrono_from_ymd_validity"], "thorough": ["std_i8_unsigned_abs", "chrono_view_is_days_from_civil", "chrono_from_ymd_validity", "chrono_add_days", "chrono_sub_days"]},
        "level": "proof",
        "assumptions": CHRONO_ASSUMPTIONS + [
            "the n-th business day (and, with settlement, an eligible day beyond it) exists inside chrono's range (add_bus_pre / lag_pre); bus_date_range additionally needs a business day after `end` (the real loop computes it)",
        ],
        "uncovered": [],
    },
    "C08": {
        "units": ["dateroll"],
        "kani": {"quick": ["rateslib_get_imm_is_third_wednesday", "rateslib_is_imm_exactly_third_wednesday", "rateslib_get_eom_is_last_day", "rateslib_is_eom_exactly_last_day", "rateslib_is_leap_year_gregorian", "std_i32_abs_signum", "std_i32_rem_euclid_12", "std_i32_try_from_u32", "chrono_view_is_days_from_civil", "chrono_from_ymd_validity"], "thorough": ["rateslib_get_imm_is_third_wednesday", "rateslib_is_imm_exactly_third_wednesday", "rateslib_get_eom_is_last_day", "rateslib_is_eom_exactly_last_day", "rateslib_is_leap_year_gregorian", "std_i32_abs_signum", "std_i32_rem_euclid_12", "std_i32_try_from_u32", "chrono_view_is_days_from_civil", "chrono_from_ymd_validity", "chrono_add_days", "chrono_sub_days"]},
        "level": "proof",
        "assumptions": CHRONO_ASSUMPTIONS + [
            "specs of i32::abs / signum / rem_euclid / i32::try_from(u32) / i8::unsigned_abs (shim/intspecs.rs): each checked by a Kani harness against the real std over the full domain (rem_euclid for the divisor 12, the one the code uses)",
            "the target year lies in chrono's representable range (the property's 1970-2200 is inside it)",
        ],
        "uncovered": [],
    },
    "C20": {
        "units": ["dateroll", "dual_core", "calendars", "fx", "ppspline"],
        # every function these units hold is a callee of some entry point named by C20: all of them count, in safety mode (only
        # abort-relevant obligations: overflow, division by zero, unwrap / expect / index / panic preconditions)
        "dep_units": ["dateroll", "dual_core", "calendars", "fx", "ppspline", "linalg_f64"],
        "dep_mode": "safety",
        "extra": "cases_engine",
        "cases": [
            {"case": "d3", "where": "rust/calendars/calendar.rs", "what": "NamedCal::from_json of a valid document whose name was altered to an unknown calendar"},
            {"case": "d4", "where": "rust/fx/rates/mod.rs", "what": "FXRates::from_json of a valid document with the quote list emptied / the currency list emptied / a quote duplicated"},
            {"case": "d6", "where": "rust/dual/linalg/linalg_dual.rs", "what": "PPSpline::csolve with a NaN site and with a NaN datum"},
            {"case": "jsonmut", "label": "bounded sweep of 962 altered documents", "where": "rust/json/mod.rs", "what": "from_json of every document obtained from five valid ones (NamedCal, two FXRates, Cal, UnionCal) by deleting one field or list element, duplicating one list element, or altering one value (ten string alternatives incl. wrong-length and non-ASCII currency codes and unknown calendar names, nine numeric ones, null, wrong type): a value or an error, never an abort"},
        ],
        "kani": {"quick": ["std_i8_unsigned_abs", "std_i32_abs_signum", "std_i32_rem_euclid_12", "std_i32_try_from_u32", "chrono_view_is_days_from_civil", "chrono_from_ymd_validity"], "thorough": ["std_i8_unsigned_abs", "std_i32_abs_signum", "std_i32_rem_euclid_12", "std_i32_try_from_u32", "chrono_view_is_days_from_civil", "chrono_from_ymd_validity", "chrono_add_days", "chrono_sub_days"]},
        "level": "proof",
        "assumptions": CHRONO_ASSUMPTIONS,
        "uncovered": [
            "JSON loading: the two hand-written load-time reconstructions (TryFrom<NamedCalDataModel> for NamedCal, TryFrom<FXRatesDataModel> for FXRates) ARE under contract (extracted each run: an error for unknown names / an empty currency list / quotes that try_new refuses, never an abort; otherwise exactly the object try_new builds; lemma_named_reload and lemma_reload_same_market: the reloaded object is the saved one). What stays outside both verifiers' reach is serde's derive expansion and serde_json's parser (malformed text, field framing, float text): there only the replayed inputs of the genuine defects found (cases d3, d4: rebuild-on-load data models; d6: NaN in the spline solve) are re-run on every check, as single-input bounded stand-ins",
            "Ccy::try_new: the string operations (lower-casing, byte length) and the global interner are abstract; that a byte length of 3 means three ASCII characters is not modelled",
            "curve constructor CurveDF::try_new is under contract in unit `curves` (always Ok; checked under C11), not re-listed among C20's obligations; a curve with fewer than two nodes is accepted by it and look-ups on such a curve are outside every contract here (precondition nodes_ok)",
        ],
    },
    "C17": {
        "units": ["dual_core", "dual_ops"],
        "dep_units": ["dual_core", "dual_ops"],
        "level": "proof",
        "assumptions": DUAL_ASSUMPTIONS,
        "uncovered": [
            
            "requested lists with duplicate names: gradient1/gradient2 drop duplicates (first occurrence kept) and are covered; gradient1_manifold is specified for distinct names only, as the property states",
        ],
    },
    "C01": {
        "units": ["dual_core", "dual_ops"],
        "dep_units": ["dual_core", "dual_ops"],
        "level": "proof",
        "assumptions": DUAL_ASSUMPTIONS + AD_ASSUMPTIONS,
        "uncovered": [],
    },
    "C02": {
        "units": ["dual_core", "dual_ops"],
        "dep_units": ["dual_core", "dual_ops"],
        "level": "proof",
        "assumptions": DUAL_ASSUMPTIONS + AD_ASSUMPTIONS,
        "uncovered": [],
    },
    "C03": {
        "units": ["dual_core", "dual_ops"],
        "dep_units": ["dual_core", "dual_ops"],
        "level": "proof",
        "assumptions": DUAL_ASSUMPTIONS,
        "uncovered": [],
    },
    "C18": {
        "units": ["dual_ops"],
        "dep_units": ["dual_core", "dual_ops"],
        "level": "proof",
        "assumptions": DUAL_ASSUMPTIONS + AD_ASSUMPTIONS + [
            "PartialEq / PartialOrd of Number are verified as free functions (the trait impls only forward to them) because core's comparison traits cannot carry the 'not a Dual/Dual2 mix' precondition",
            "R8': in the refusal copies `panic!` is a diverging call; each copy is verified against `ensures false` under the precondition that the operands are a Dual/Dual2 mix",
        ],
        "uncovered": [
            "abs_sub / signum / is_positive / is_negative of the Signed impls, Num::from_str_radix, NumberOps marker impls: not under contract (not part of the statement); Sum for Number is under contract for sequences that do not mix first- and second-order numbers (Iterator::fold with an accumulator invariant is an assumed shim)",
            "the Python-facing wrappers in dual_py.rs",
        ],
    },
    "C19": {
        "units": ["dual_ops"],
        "dep_units": ["dual_core", "dual_ops"],
        "level": "proof",
        "assumptions": DUAL_ASSUMPTIONS + [
            "x % y on floats is x - trunc(x / y) * y with trunc an uninterpreted real function (no property of trunc is needed: the contract states the remainder rule in terms of the same trunc)",
            "Iterator::fold specified eagerly (chain of accumulators)",
        ],
        "uncovered": [
            "abs at exactly zero (the property is silent there)",
            "Sum for Number is covered for sequences without a Dual/Dual2 mix (for a mixed sequence the sum is refused by the `+` it folds with, C18)",
        ],
    },
    "C11": {
        "units": ["curves"],
        "dep_units": ["dual_core", "dual_ops"],
        "level": "proof",
        "assumptions": DUAL_ASSUMPTIONS + [
            "R5: generic functions are verified as monomorphic copies (index_left at i64, the closed forms at f64/Dual/Dual2), the instantiations the crate uses",
            "IndexMap::sort_keys (same pairs as a multiset, keys strictly increasing), IndexMap::from_iter / into_iter (pairs in order; the keys of a map are pairwise distinct and distinct date-times have distinct timestamps) are assumed indexmap / chrono contracts; CurveDF::try_new, From<Nodes> for NodesTimestamp and NodesTimestamp::sort_keys themselves are under contract and 'the order of supplied nodes does not matter' is the lemma lemma_node_order_irrelevant over them",
            "`id.to_string()` is a declared substitution (vx_str_to_string); strings are opaque tokens",
            "timestamps: `date.and_utc().timestamp()` = 86400 * day number (midnight assumption); `as f64` on i64 keys is exact in the real model",
        ],
        "uncovered": CURVE_UNCOVERED,
    },
    "C12": {
        "units": ["curves"],
        "dep_units": ["dual_core", "dual_ops"],
        "level": "proof",
        "assumptions": DUAL_ASSUMPTIONS + AD_ASSUMPTIONS,
        "uncovered": CURVE_UNCOVERED + [
            "variable NAMING '<curve id><i>': get_variable_tags is under contract as 'tag i = concat(id, decimal(i)) with i the list position', but string concatenation and decimal rendering themselves are two uninterpreted functions (String is an opaque token in the units); the actual characters are exercised by the bounded probe only (curves of up to 24 nodes)",
        ],
    },
    "C14": {
        "units": ["splines"],
        "level": "proof",
        "assumptions": [
            "R6: f64 modelled by mathematical reals (R64)",
            "oracle: the Cox-de Boor recursion with right-continuous pieces, 0/0 := 0 and the right-end-point rule, and de Boor's derivative recursion, as spec functions bsp / dsp in contracts/splines.vx; that dsp IS the derivative of the piecewise polynomial is de Boor's theorem (taken as the oracle, not re-derived from limits)",
            IDENTITY_RULE_GENERAL,
        ],
        "uncovered": SPLINE_UNCOVERED,
    },
    "C06": {
        "units": ["calendars"],
        "dep_units": ["dateroll"],
        "kani": {"quick": ["chrono_view_is_days_from_civil", "chrono_from_ymd_validity", "chrono_weekday_try_from_u8"], "thorough": ["chrono_view_is_days_from_civil", "chrono_from_ymd_validity", "chrono_add_days", "chrono_sub_days", "chrono_weekday_try_from_u8"]},
        "level": "proof",
        "assumptions": CHRONO_ASSUMPTIONS + [
            "get_calendar_by_name(name) returns the calendar named_cal(name) or an error when the name is unknown (assumed contract; its tables and wiring are decided by C07)",
            "str::to_lowercase and str::split are uninterpreted functions of the character sequences (shim in contracts/calendars.vx); split yields at least one piece",
            "HashSet<Weekday>::contains / IndexSet<NaiveDateTime>::contains are membership tests, HashSet::from_iter / IndexSet::from_iter hold exactly the yielded elements, chrono's Weekday::try_from(u8) maps 0..=6 to Mon..Sun and refuses everything else (Kani harness chrono_weekday_try_from_u8, complete over u8); holidays are midnights; Cal::new itself is under contract (stores exactly the given holidays and week mask, for week masks 0-6)",
            "`impl PartialEq<T> for X` is rendered as the local trait CalEq<T> with the same method bodies (R7)",
            "Option::map_or, Vec::iter + all/any/zip as eager iterators (shim/collections.rs)",
        ],
        "uncovered": [
            "the derived PartialEq of CalType (variant-wise) and of Cal (structural) are not part of the statement and not under contract",
            "Python-side wrappers (calendar_py.rs) are outside Verus' reach",
        ],
    },
    "C09": {
        "units": ["fx"],
        "dep_units": ["dual_core", "dual_ops"],
        "extra": "probe_engine",
        "probe": {
            "func": "create_fx_array", "name": "c09::triangulation_probe (bounded)", "where": "rust/fx/rates/mod.rs",
            "bound": "quote trees on 2..8 currencies: chain, star, binary, interleaved, irregular, caterpillar shapes; every orientation of every quote for n <= 7 (5 patterns above); up to 4 rotations of the quote list; 4 base choices; 9 degenerate quote sets; update / order histories of 10 steps on 2..5 currencies",
            "bound_thorough": "as quick, with trees on 2..12 currencies",
            "rule": "evaluations = cross rates (and, at first order, sensitivities) compared with the path-product oracle on the quote tree; a case is one (tree shape, orientation mask, quote order, base) market or one history step, all distinct by construction; every case has >= 2 currencies so no case is trivial",
            "what": "stand-in for mut_arrays_remaining_elements / create_fx_array, which are outside the verifier's reach (recursion over sum_axis / zip / filter / max_by_key / itertools::combinations / HashSet)",
            "trusted": "replay/src/probe_fx.rs: the oracle (path product on the quote tree found by breadth-first search) is written from the property text; rustc codegen",
        },
        "level": "other",
        "explanation": "mixed: the rejection clauses, the two seeding functions, and for the fill-in recursion soundness (every value written is consistent with every potential vector of the quotes; nothing populated is overwritten), termination and completeness (Ok exactly for connected quote graphs) are proved (Verus) relative to assumed contracts of its three iterator chains; order / base independence is a lemma conditional on a potential; the bounded probe on the real code (labelled bounded, not proved) explores the same clauses without those assumptions",
        "assumptions": CHRONO_ASSUMPTIONS + [
            "create_initial_fx_array is verified over the abstract ring of shim/ring.rs (f64 / Dual / Dual2 instances assumed to satisfy its axioms)",
            "IndexSet<Ccy> get_index_of / insert / len, Array2::eye, slice iteration: shim contracts",
        ],
        "uncovered": [
            "mut_arrays_remaining_elements: TERMINATION is proved (lexicographic measure: unpopulated edges, then unvisited nodes; HashSet cardinality facts assumed) and so is COMPLETENESS in both directions: the result is Ok exactly when the seeded quote graph is connected (a connected graph with a missing edge has a vertex with two unconnected neighbours; populating keeps components) - so every tree is filled and a quote set of the right count that is not a tree (hence not connected - that step is textbook) is refused; its three selection expressions (iterator chains choosing the node and the open pairs) are ASSUMED contracts",
            "create_fx_array: its body is under the relational contract lift_post (C10: lifting, naming, conversion, seeding + filling through `_g` stand-ins of the two generic callees); that the stand-ins are the Rg-instances proved here is a declared link, not a proof; existence of a potential vector for a tree of quotes is textbook and not machine-checked",
            "independence of quote order and base currency: proved CONDITIONALLY (lemma_fx_order_independent): two completed fills of markets that share a potential (an assignment of invertible elements to currencies with quote * p(dom) == p(for)) agree on every ordered pair of currencies; that a tree of quotes HAS a potential is textbook and not machine-checked; unconditional exploration by the bounded probe",
        ],
    },
    "C10": {
        "units": ["fx", "dual_core", "dual_ops"],
        "dep_units": ["dual_core", "dual_ops"],
        "level": "proof",
        "assumptions": CHRONO_ASSUMPTIONS + DUAL_ASSUMPTIONS + [
            "create_fx_array as CALLED by try_new / update / set_ad_order is an ASSUMED deterministic function fx_build(currencies, quotes, order): it fails or succeeds independently of the order, returns a square matrix of the requested order, and its values do not depend on the order (axiom_fx_build)",
            "create_fx_array's BODY is under a second, relational contract (create_fx_array_lift): every quote is lifted by set_order_clone (C18's table) with the single name fx_tag(pair), converted by the From<&Number> conversion of the requested order, and the matrix of that order is seeded and filled; the two generic callees appear as `_g` stand-ins (assumed deterministic; success == connectedness of the quote graph, which is what is PROVED for their bodies at T := Rg under C09), hence the builder succeeds exactly for connected quote sets whatever the requested order (lemma_lift_success_order_independent); `format!(\"fx_{}\", pair)` is an uninterpreted function of the pair (declared substitution)",
            "derived Clone of FXRate / NumberArray2 / IndexSet<Ccy> is structural; Ccy (interned string handle) is equal exactly when the names are equal",
            "IndexSet<Ccy> insert / get_index_of / index, Array2::from_shape_vec / into_iter, Vec::clone_from, Iterator fold / enumerate / all / any: shim contracts",
        ],
        "uncovered": [
            "sensitivity VALUES are proved at BOTH orders (the fill-in extracted a second and third time at T := Dual / Dual2 with additive-potential invariants: grad(cross i->j)(variable of quote k) * quote_k == (h_j - h_i) * cross, and 2 * hess2(cross)(t1, t2) * q1 * q2 == (S1*S2 - [same quote]*S1) * cross; lemma_seed_elastic / lemma_seed_el2, lemma_fx_sensitivity / lemma_fx_sensitivity2); that a tree of quotes HAS the side labelling h (the two sides of the tree without edge k) is textbook and not machine-checked, the seeding function is read at T := Dual / Dual2 from its contract at the abstract ring, and distinct quotes are taken to have distinct variable names (termination of the two extra copies is proved with the same measure)",
            "the characters of the name fx_xxxyyy (formatting macro): bounded probe only",
            "Python wrappers (fx_py.rs)",
        ],
    },
    "C13": {
        "units": ["linalg", "linalg_f64"],
        "dep_units": ["dual_core", "dual_ops"],
        "kani": {"quick": ["row_swap_swaps_exactly_two_rows", "el_swap_swaps_exactly_two_elements", "argabsmax_is_an_index_of_largest_abs"], "thorough": ["row_swap_swaps_exactly_two_rows", "el_swap_swaps_exactly_two_elements", "argabsmax_is_an_index_of_largest_abs"]},
        "level": "proof",
        "assumptions": [
            "machine arithmetic treated as mathematical: the generic element type T is an abstract commutative ring (shim/ring.rs); f64 rounding, inf and NaN are outside the model",
            "Dual and Dual2 arithmetic satisfies the ring axioms of shim/ring.rs (truncated power series) and, as right-hand sides of an f64 matrix, the module axioms of shim/module.rs; assumed, not re-derived from C01-C03",
            "`non-singular` is taken as `regular(a)` (contracts/linalg.vx): every matrix with kernel inside a's and zeros below the diagonal in its first j columns has an invertible entry in column j at or below row j; its textbook equivalence with det != 0 (real parts for dual numbers) is not machine-checked",
            "row_swap, el_swap, argabsmax: assumed contracts (ndarray mutable view splitting / Zip / max_by are outside Verus' reach)",
            "ndarray slices `s![..]`, views, to_owned, Array::zeros, iterator zip/map/sum: shim contracts (contracts/linalg.vx, shim/ndarray.rs, shim/collections.rs)",
            IDENTITY_RULE_GENERAL,
        ],
        "uncovered": [
            "row order independence and uniqueness are proved for the square non-singular case only; for least squares (normal equations) uniqueness is not derived",
            "floating point conditioning (`well-conditioned`) is outside a real-number contract",
            "NaN entries are outside the real-number model (the abort they caused in argabsmax was a genuine defect, repaired: fix 234b13e, replayed under C20)",
        ],
    },
    "C15": {
        "units": ["ppspline", "splines_dual", "linalg_f64"],
        "dep_units": ["dual_core", "dual_ops", "linalg", "linalg_f64", "splines"],
        "kani": {"quick": ["row_swap_swaps_exactly_two_rows", "el_swap_swaps_exactly_two_elements", "argabsmax_is_an_index_of_largest_abs"], "thorough": ["row_swap_swaps_exactly_two_rows", "el_swap_swaps_exactly_two_elements", "argabsmax_is_an_index_of_largest_abs"]},
        "extra": "probe_engine",
        "probe": {
            "func": "csolve", "name": "c15::solved_spline_probe (bounded)", "where": "rust/splines/spline.rs",
            "bound": "orders 2..5, four interior knot layouts, Greville sites (natural layout with repeated end sites and second-derivative conditions for order 4), data of a degree k-1 polynomial: interpolation conditions, polynomial reproduction of value and all derivatives at 21 points, mismatched site counts, sensitivities to dual data against unit-data splines; plus the basis probe of C14 (orders 1..6, six knot layouts, knots / midpoints / near-knot points)",
            "rule": "evaluations = basis values compared with the independent piecewise Cox-de Boor oracle; cases = solved splines; all cases distinct (order x knot layout)",
            "what": "stand-in for the clauses of C15 no contract here can express: polynomial reproduction and sensitivities to dual data",
            "trusted": "replay/src/probe_splines.rs oracles (piecewise Cox-de Boor / de Boor derivative formula, polynomial data) written from the property text; rustc codegen",
        },
        "level": "proof",
        "assumptions": [
            "machine arithmetic treated as mathematical (f64 as reals); the coefficient / data type T is an abstract module over the reals (shim/module.rs) - Dual and Dual2 instances assumed to satisfy its axioms",
            "`non-singular` collocation matrix is taken as `regular` (contracts/linalg_f64.vx) of whatever array holds it; that admissible site sets give a regular matrix (Schoenberg-Whitney) is NOT proved",
            "fdsolve / fdmul11_ contracts as verified in unit linalg_f64 (C13); bsplev_single_f64 / bspldnev_single_f64 contracts as verified in unit splines (C14)",
            "ranges `(0..n).map`, slice to_owned, Array1::from_vec, Array2::zeros: shim contracts",
            "Iterator::sum on dual numbers is taken to dispatch to the crate's `impl Sum` (whose body is under contract, C19); Iterator::sum on f64 is the mathematical sum",
            IDENTITY_RULE_GENERAL,
        ],
        "uncovered": [
            "polynomial reproduction (Marsden's identity): not expressible here without a formalised spline theory; bounded probe only",
            "dual DATA: proved in the abstract module as superposition (value at x == sum_p S_p(x) * y_p with S_p the spline solved on the unit data e_p; lemma_spline_superposition, from csolve's uniqueness postcondition); that the coefficient of datum p's own variable in a Dual/Dual2 datum is 1, and hence the sensitivity IS S_p(x), is the module-axiom reading of Dual/Dual2 (assumed) and is exercised by the bounded probe",
            "least-squares mode: only the error returns are covered",
            "dual abscissa: PPSpline<f64>::ppdnev_single_dual / ppdnev_single_dual2 ARE under contract (value S_m(x), gradient S_(m+1)(x)*grad x, Hessian by the chain rule with S_(m+1), S_(m+2), where S_j is what ppdnev_single(x, j) returns); PPSpline<f64>::mapped_value (the dispatch on the kind of abscissa) is under contract too; PPSpline<Dual>::ppdnev_single_dual and PPSpline<Dual2>::ppdnev_single_dual2 (dual coefficients AND dual abscissa, through dmul11_) are under contract as well (value, gradient = coefficients' own sensitivities weighted by the basis + the spline's derivative times the abscissa's gradient, and the full second-order formula); their mapped_value dispatchers and the two refusing type combinations are covered by the bounded probe only",
        ],
    },
    "C07": {
        "units": [],
        "extra": "c07",
        "level": "other",
        "explanation": "verified checker (Verus) compiled and executed on the tables extracted from /repo on this run; exhaustive over all dates 1970-2200",
        "assumptions": [
            "the published rules as transcribed in c07/template.rs from the RULES constants and <x>_script.py files (pandas Holiday semantics)",
            "Gregorian computus and civil-date arithmetic are the definitions used by the rules",
            "extraction by regular expressions in vxlib/c07.py (any entry of unexpected shape aborts the run as undecided); validated end to end on every run: the calendar objects that get_calendar_by_name builds at run time agree with the extracted tables on every day 1970-2200 (is_holiday on Monday-Friday, is_bus_day on every day) - native exhaustive sweep `vx-replay calsweep`",
            "holiday tables are read as sets, as Cal::new does (IndexSet::from_iter): the extractor sorts them and drops repeated entries before the verified checker sees them",
        ],
        "uncovered": [
            "tro/tyo/syd/wlg/mum: only the plain documented fixed-date and Easter-linked holidays are checked (one direction), as the property states",
            "is_holiday on Saturdays / Sundays is not constrained (the property speaks about weekdays and business days)",
        ],
    },
}
