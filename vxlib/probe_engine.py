"""Bounded stand-in engine: a deterministic probe of the replay crate (replay/src/probe_*.rs) is run on the REAL compiled code
on every check of the property.  It is exploration with a stated bound, never counted as proved: the obligation it
contributes has status `bounded-ok` (or `failed` with the counterexample).  Parameters come from config.CHECKS[pid]["probe"]."""
import json
import os
import subprocess
import time

ROOT = os.path.dirname(os.path.dirname(os.path.abspath(__file__)))
REPLAY_BIN = os.path.join(ROOT, ".cache", "target-replay", "release", "vx-replay")


def run(pid, tier, seed):
    from vxlib import config
    pc = config.CHECKS[pid]["probe"]
    out = {"obligations": [], "violations": [], "undecided": [], "cmds": [], "trusted": [], "solver_s": {}, "guards": {}, "coverage": {}, "samples": []}
    t0 = time.time()
    env = dict(os.environ, CARGO_NET_OFFLINE="true", VERIF_TIER=tier)
    b = subprocess.run(["cargo", "build", "--release", "--offline"], cwd=os.path.join(ROOT, "replay"), capture_output=True, text=True, timeout=1800, env=env)
    if b.returncode != 0:
        out["undecided"].append("replay crate does not build against /repo: " + b.stderr[-600:])
        return out
    cmd = [REPLAY_BIN, "probe", pc["func"]]
    out["cmds"].append("VERIF_TIER=%s %s" % (tier, " ".join(cmd)))
    try:
        p = subprocess.run(cmd, capture_output=True, text=True, timeout=1800, env=env)
    except subprocess.TimeoutExpired:
        # the probe finishes in seconds on the unchanged tree: 30 minutes without a result is non-termination of the real code
        rec = {"kind": "probe", "name": pc["func"], "input": "the probe run of the real code did not finish within 1800 s (seconds on the unchanged tree)", "observed": "no result (non-termination)", "expected": "a value or an error", "holds": False}
        out["bounded_items"] = [{"harness": "probe::" + pc["func"], "bound": pc["bound"], "status": "failed", "what": pc["what"]}]
        out["violations"].append({"obligation": pc["name"], "kind": "bounded probe on the real code did not terminate", "where": pc.get("where", ""), "code": "",
                                  "verifier_output": "", "counterexample": rec, "item": None, "unit": "probe", "bounded": True})
        return out
    rec = None
    for line in p.stdout.split("\n"):
        line = line.strip()
        if line.startswith("{"):
            try:
                rec = json.loads(line)
            except Exception:  # noqa
                pass
    bound = pc["bound_thorough"] if tier == "thorough" and pc.get("bound_thorough") else pc["bound"]
    if (rec is None or "result" not in rec and rec.get("holds") is not False) and p.returncode != 0:
        # the real code brought the probe process down (stack overflow, abort, signal) -- on the unchanged tree the probe runs to the end
        from vxlib import replay as _rp
        rec = _rp._aborted(pc["func"], p)
    if rec is None:
        out["undecided"].append("probe produced no result: " + (p.stderr[-400:] or p.stdout[-400:]))
        return out
    name = pc["name"]
    if rec.get("holds") is False:
        out["bounded_items"] = [{"harness": "probe::" + pc["func"], "bound": bound, "status": "failed", "what": pc["what"]}]
        out["violations"].append({"obligation": name, "kind": "bounded probe on the real code found a counterexample", "where": pc.get("where", ""), "code": "",
                                  "verifier_output": "", "counterexample": rec, "item": None, "unit": "probe", "bounded": True})
    else:
        ev = int(rec.get("evaluations", 0))
        cases = int(rec.get("cases", 0))
        out["guards"]["probe explored a non-empty set of cases"] = (cases > 0 or ev > 0)
        if cases == 0 and ev == 0:
            out["undecided"].append("probe explored nothing (vacuous)")
        out["coverage"] = {
            "evaluations": ev,
            "distinct_nontrivial": cases,
            "rule": pc["rule"],
            "exhaustive": False,
        }
        out["bounded_items"] = [{"harness": "probe::" + pc["func"], "bound": bound, "status": "no counterexample", "what": pc["what"]}]
        out["samples"].append(rec.get("sample", ""))
    out["solver_s"]["native-exec"] = time.time() - t0
    out["trusted"].append(pc.get("trusted", "replay/src/probe_*.rs oracle written from the property text; rustc codegen"))
    return out
