"""Concrete-input cases replayed on the REAL compiled code (replay crate, `vx-replay <case>`).  Used for clauses of a property
that no contract here can reach (JSON loading goes through serde derive expansions; NaN is outside the real-number model) but
for which a genuine defect was once found: the case that exposed it is re-run on every check, so that the defect is reported
again if it ever returns.  Each case is a single input: bounded stand-in, never counted as proved.
Parameters: config.CHECKS[pid]["cases"] = [{"case": "d3", "what": "..."}]."""
import json
import os
import subprocess
import time

ROOT = os.path.dirname(os.path.dirname(os.path.abspath(__file__)))
REPLAY_BIN = os.path.join(ROOT, ".cache", "target-replay", "release", "vx-replay")


def run(pid, tier, seed):
    from vxlib import config
    out = {"obligations": [], "violations": [], "undecided": [], "cmds": [], "trusted": [], "solver_s": {}, "guards": {}, "coverage": {}, "samples": [], "bounded_items": []}
    t0 = time.time()
    env = dict(os.environ, CARGO_NET_OFFLINE="true")
    b = subprocess.run(["cargo", "build", "--release", "--offline"], cwd=os.path.join(ROOT, "replay"), capture_output=True, text=True, timeout=1800, env=env)
    if b.returncode != 0:
        out["undecided"].append("replay crate does not build against /repo: " + b.stderr[-600:])
        return out
    for c in config.CHECKS[pid].get("cases", []):
        cmd = [REPLAY_BIN, c["case"]]
        out["cmds"].append(" ".join(cmd))
        name = f"{pid.lower()}::case_{c['case']} ({c.get('label', 'single replayed input')})"
        try:
            p = subprocess.run(cmd, capture_output=True, text=True, timeout=300, env=env)
        except subprocess.TimeoutExpired:
            out["undecided"].append(f"case {c['case']} timed out")
            continue
        rec = None
        for line in p.stdout.split("\n"):
            line = line.strip()
            if line.startswith("{"):
                try:
                    rec = json.loads(line)
                except Exception:  # noqa
                    pass
        if rec is None:
            # no record at all: the process died (an abort is exactly what these cases look for)
            rec = {"case": c["case"], "input": c["what"], "observed": f"the process aborted (exit status {p.returncode}): " + (p.stderr.strip().split("\n")[-1][:200] if p.stderr.strip() else ""), "expected": "a returned value or error", "holds": False}
        ok = rec.get("holds") is True
        out["bounded_items"].append({"harness": "case::" + c["case"], "bound": (c.get("label") or "one concrete input") + ": " + c["what"], "status": "no counterexample" if ok else "failed", "what": c["what"]})
        if not ok:
            out["violations"].append({"obligation": name, "kind": "replayed input fails on the real code", "where": c.get("where", ""), "code": "", "verifier_output": "",
                                      "counterexample": rec, "item": None, "unit": "cases", "bounded": True})
        else:
            out["samples"].append(rec.get("input", "")[:200])
    out["solver_s"]["native-exec"] = time.time() - t0
    out["trusted"].append("replay/src/main.rs cases d3 / d4 / d6 / jsonmut (inputs and expected outcomes written from the property text); rustc codegen")
    return out
