"""Parsing of contract unit files (contracts/<unit>.vx) and assembly of the generated Verus file.

A .vx file is Verus source text (spec functions, lemmas, trait/impl headers written by hand)
interleaved with *extract blocks*:

    //@ extract rust/calendars/dateroll.rs :: trait DateRoll :: fn roll_forward_bus_day
    //@ props C04 C20
    //@ opt ufcs float_lits
    //@ rename new_name
    //@ ret r
    //@ subst `&dyn DateRoll` => `&impl DateRoll1`
    //@ index a.dual2 cross_beta
    //@ sig
        requires ...
        ensures ...
    //@ loop 0 [iter it]
        invariant ...
        decreases ...
    //@ loop 0 body_start
        proof { ... }
    //@ before `let x = ` [#k]
        proof { ... }
    //@ after `foo(bar);`
        assert(...);
    //@ body_start
        proof { ... }
    //@ closure 0 params `&String` `&String` ret `r: bool`
        ensures ...
    //@ end

Every extract block is replaced by the text of that function taken from /repo on this run by
tools/vx-extract.  Other directives:

    //@ include shim/chrono.rs        textual include (relative to /verif)
    //@ props C04 C05                 (outside an extract block) default property tags for the
                                      hand-written proof fns that follow (lemmas)
    //@ canary                        emits the must-fail canary function
"""
import json
import os
import re
import subprocess
import hashlib

ROOT = os.path.dirname(os.path.dirname(os.path.abspath(__file__)))
REPO = os.environ.get("VERIF_REPO", "/repo")
EXTRACT_BIN = os.path.join(ROOT, ".cache", "target-vx", "release", "vx-extract")

BT = re.compile(r"`([^`]*)`")


class UnitError(Exception):
    pass


def _read(path):
    with open(path) as f:
        return f.read()


_INCLUDED = set()


def parse_unit(path, _seen=None):
    """Returns list of segments: ('raw', text, origin, first_line) | ('extract', spec dict) | ('lemma_props', [ids])."""
    segs = []
    lines = _read(path).split("\n")
    i = 0
    raw = []
    raw_start = 1

    def flush():
        nonlocal raw, raw_start
        if raw:
            segs.append(("raw", "\n".join(raw) + "\n", os.path.relpath(path, ROOT), raw_start))
        raw = []

    while i < len(lines):
        ln = lines[i]
        s = ln.strip()
        if s.startswith("//@"):
            d = s[3:].strip()
            if d.startswith("include "):
                flush()
                inc = os.path.join(ROOT, d[len("include "):].strip())
                if inc not in _INCLUDED:          # a file is included once per unit (libraries may name the same shims)
                    _INCLUDED.add(inc)
                    segs.extend(parse_unit(inc))
                i += 1
                raw_start = i + 1
                continue
            if d.startswith("include-lib "):
                # another unit's text used as a library: its functions are re-verified but do not count as
                # obligations of the including unit (props cleared), its canary is dropped
                flush()
                inc = os.path.join(ROOT, d[len("include-lib "):].strip())
                for sg in parse_unit(inc):
                    if sg[0] == "extract":
                        sp = dict(sg[1]); sp["props"] = []
                        segs.append(("extract", sp))
                    elif sg[0] == "lemma_props":
                        segs.append(("lemma_props", []))
                    elif sg[0] == "raw" and sg[2] == "<canary>":
                        continue
                    else:
                        segs.append(sg)
                segs.append(("lemma_props", []))
                i += 1
                raw_start = i + 1
                continue
            if d.startswith("props "):
                flush()
                segs.append(("lemma_props", d.split()[1:]))
                i += 1
                raw_start = i + 1
                continue
            if d.startswith("forward ") or d.startswith("forward1 "):
                flush()
                segs.append(("raw", gen_forwarders(d), os.path.relpath(path, ROOT) + " (generated forwarders, R3)", i + 1))
                i += 1
                raw_start = i + 1
                continue
            if d == "canary":
                flush()
                segs.append(("raw", "proof fn vx_canary() ensures false { }\n", "<canary>", 0))
                i += 1
                raw_start = i + 1
                continue
            if d.startswith("extract "):
                flush()
                spec, i = _parse_extract(lines, i, path)
                segs.append(("extract", spec))
                raw_start = i + 1
                continue
            raise UnitError(f"{path}:{i+1}: unknown directive `{d}` outside extract block")
        if not raw:
            raw_start = i + 1
        raw.append(ln)
        i += 1
    flush()
    return segs


def gen_forwarders(d):
    """R3: the trait impls auto_ops generates around an `impl_op*!` closure, written out so that Verus sees them.
    `forward Tr m fn A B C [commutative]`: impl_op_ex! -- the four ownership variants (and the swapped four);
    `forward1 Tr m fn A C`: impl_op! on a unary operator -- exactly the given operand type."""
    w = d.split()
    out = []
    if w[0] == "forward1":
        _, Tr, m, fn, A, C = w[:6]
        ref = A.startswith("&")
        base = A.lstrip("&")
        lt = "<'a>" if ref else ""
        L = f"&'a {base}" if ref else base
        arg = "self" if ref else "&self"
        out.append(f"""impl{lt} vstd::std_specs::ops::{Tr}SpecImpl for {L} {{
    closed spec fn obeys_{m}_spec() -> bool {{ false }}
    closed spec fn {m}_req(self) -> bool {{ {fn}_req({arg}) }}
    closed spec fn {m}_spec(self) -> {C} {{ arbitrary() }}
}}
impl{lt} core::ops::{Tr} for {L} {{
    type Output = {C};
    fn {m}(self) -> (r: {C}) ensures {fn}_post({arg}, &r) {{ {fn}({'self' if ref else 'self'}) }}
}}
""")
        return "".join(out)
    _, Tr, m, fn, A, B, C = w[:7]
    comm = "commutative" in w[7:]
    a0, b0 = A.lstrip("&"), B.lstrip("&")

    def one(L0, R0, lref, rref, swapped):
        lts = [x for x, on in (("'a", lref), ("'b", rref)) if on]
        lt = "<" + ", ".join(lts) + ">" if lts else ""
        L = (f"&'a {L0}" if lref else L0)
        R = (f"&'b {R0}" if rref else R0)
        la = "self" if lref else "&self"
        ra = "rhs" if rref else "&rhs"
        args = f"{ra}, {la}" if swapped else f"{la}, {ra}"
        return f"""impl{lt} vstd::std_specs::ops::{Tr}SpecImpl<{R}> for {L} {{
    closed spec fn obeys_{m}_spec() -> bool {{ false }}
    closed spec fn {m}_req(self, rhs: {R}) -> bool {{ {fn}_req({args}) }}
    closed spec fn {m}_spec(self, rhs: {R}) -> {C} {{ arbitrary() }}
}}
impl{lt} core::ops::{Tr}<{R}> for {L} {{
    type Output = {C};
    fn {m}(self, rhs: {R}) -> (r: {C}) ensures {fn}_post({args}, &r) {{ {fn}({args}) }}
}}
"""
    for lref in (True, False):
        for rref in (True, False):
            out.append(one(a0, b0, lref, rref, False))
            if comm:
                out.append(one(b0, a0, lref, rref, True))
    return "".join(out)


def _parse_extract(lines, i, path):
    head = lines[i].strip()[3:].strip()[len("extract "):]
    file_, sel = head.split("::", 1)
    spec = {
        "file": file_.strip(),
        "sel": sel.strip(),
        "props": [],
        "loops": {},
        "anchors": [],
        "closures": {},
        "subst": [],
        "vx_path": os.path.relpath(path, ROOT),
        "vx_line": i + 1,
    }
    i += 1
    cur = None  # (kind, target)
    buf = []

    def close():
        nonlocal cur, buf
        if cur is None:
            return
        text = "\n".join(buf)
        kind = cur[0]
        if kind == "sig":
            spec["sig"] = text
        elif kind == "loop":
            spec["loops"].setdefault(cur[1], {})[cur[2]] = text
        elif kind == "anchor":
            a = dict(cur[1])
            a["code"] = text
            spec["anchors"].append(a)
        elif kind == "closure":
            spec["closures"][cur[1]]["spec"] = text
        cur = None
        buf = []

    while i < len(lines):
        s = lines[i].strip()
        if s.startswith("//@"):
            d = s[3:].strip()
            w = d.split()
            if d == "end":
                close()
                for _c in spec["closures"].values():
                    if _c.get("auto") is True:
                        _c["auto"] = spec.get("automap", [])
                spec.pop("automap", None)
                return spec, i + 1
            if w[0] == "props":
                close()
                spec["props"] = w[1:]
            elif w[0] == "opt":
                close()
                for o in w[1:]:
                    if o.startswith("no_"):
                        spec[o[3:]] = False
                    else:
                        spec[o] = True
            elif w[0] == "rename":
                close()
                spec["rename"] = w[1]
            elif w[0] == "id":
                close()
                spec["id"] = w[1]
            elif w[0] == "ret":
                close()
                spec["ret"] = w[1]
            elif w[0] == "subst":
                close()
                m = BT.findall(d)
                if len(m) != 2:
                    raise UnitError(f"{path}:{i+1}: subst needs two backquoted strings")
                opt = "optional" in d.split("`")[-1]
                spec["subst"].append([m[0], m[1], not opt])
            elif w[0] == "rename_var":
                close()
                spec["rename_var"] = [w[1], w[2]]
            elif w[0] == "index":
                close()
                spec["index_rewrite"] = BT.findall(d) or w[1:]
            elif w[0] == "sig":
                close()
                cur = ("sig",)
            elif w[0] == "loop":
                close()
                k = w[1]
                spec["loops"].setdefault(k, {})
                if len(w) >= 3 and w[2] == "body_start":
                    cur = ("loop", k, "body_start")
                else:
                    if len(w) >= 4 and w[2] == "iter":
                        spec["loops"][k]["iter"] = w[3]
                    cur = ("loop", k, "spec")
            elif w[0] in ("before", "after"):
                close()
                m = BT.findall(d)
                if len(m) != 1:
                    raise UnitError(f"{path}:{i+1}: anchor needs one backquoted string")
                a = {"where": w[0], "text": m[0]}
                mm = re.search(r"#(\d+)\s*$", d)
                if mm:
                    a["nth"] = int(mm.group(1))
                cur = ("anchor", a)
            elif w[0] == "body_start":
                close()
                cur = ("anchor", {"where": "body_start"})
            elif w[0] == "automap":
                close()
                m = BT.findall(d)
                if len(m) != 2:
                    raise UnitError(f"{path}:{i+1}: automap needs `method` => `template`")
                spec.setdefault("automap", []).append([m[0], m[1]])
            elif w[0] == "closure":
                close()
                k = w[1]
                m = BT.findall(d)
                c = {}
                before_ret, _, after_ret = d.partition(" ret ")
                ptys = BT.findall(before_ret.partition(" params ")[2]) if " params " in before_ret else []
                c["params"] = ptys
                rt = BT.findall(after_ret)
                if rt:
                    c["ret"] = rt[0]
                if after_ret.rstrip().endswith(" auto"):
                    c["auto"] = True     # R14: resolved against the block's automap lines at `end`
                spec["closures"][k] = c
                cur = ("closure", k)
            else:
                raise UnitError(f"{path}:{i+1}: unknown directive `{d}` in extract block")
            i += 1
            continue
        if cur is None:
            if s:
                raise UnitError(f"{path}:{i+1}: text outside a section in extract block")
        else:
            buf.append(lines[i])
        i += 1
    raise UnitError(f"{path}: unterminated extract block starting line {spec['vx_line']}")


def run_extractor(items):
    os.makedirs(os.path.join(ROOT, "build"), exist_ok=True)
    req = {"repo": REPO, "items": items}
    rp = os.path.join(ROOT, "build", f"req-{os.getpid()}.json")
    with open(rp, "w") as f:
        json.dump(req, f)
    try:
        p = subprocess.run([EXTRACT_BIN, rp], capture_output=True, text=True)
    finally:
        try:
            os.remove(rp)
        except OSError:
            pass
    if p.returncode != 0:
        raise UnitError("vx-extract failed: " + p.stderr[-2000:])
    return json.loads(p.stdout)["items"]


BU_RE = re.compile(r"^broadcast use\s+(\{[^}]*\}|[A-Za-z_0-9:]+)\s*;\s*$")


def _merge_broadcast_use(segs):
    """Verus allows one module-level `broadcast use` per module; units assembled from several library units may carry
    one each.  All root-level (column 0) statements are merged into the first one."""
    items = []
    first = None
    out = []
    for k, sg in enumerate(segs):
        if sg[0] != "raw":
            out.append(sg)
            continue
        lines = sg[1].split("\n")
        keep = []
        for ln in lines:
            m = BU_RE.match(ln)
            if m:
                body = m.group(1).strip()
                names = [x.strip() for x in body.strip("{}").split(",") if x.strip()]
                for n in names:
                    if n not in items:
                        items.append(n)
                if first is None:
                    first = (len(out), len(keep))
                    keep.append("@@BROADCAST_USE@@")
                else:
                    keep.append("")
            else:
                keep.append(ln)
        out.append((sg[0], "\n".join(keep), sg[2], sg[3]))
    if first is not None:
        k = first[0]
        sg = out[k]
        out[k] = (sg[0], sg[1].replace("@@BROADCAST_USE@@", "broadcast use {" + ", ".join(items) + "};"), sg[2], sg[3])
    return out


FN_RE = re.compile(r"^\s*(?:pub(?:\([a-z]+\))?\s+)?(?:open\s+|closed\s+|broadcast\s+)*(proof|spec|exec)?\s*fn\s+([A-Za-z_0-9]+)")


def assemble(unit_name, out_path=None):
    """Builds build/<unit>.rs. Returns meta dict."""
    vx = os.path.join(ROOT, "contracts", unit_name + ".vx")
    _INCLUDED.clear()
    segs = parse_unit(vx)
    segs = _merge_broadcast_use(segs)
    items = []
    for k, s in enumerate(segs):
        if s[0] == "extract":
            sp = s[1]
            it = {kk: vv for kk, vv in sp.items() if kk not in ("props", "vx_path", "vx_line")}
            # `real` is a type keyword inside verus!: a Rust *variable* of that name is always renamed (rule RV)
            it.setdefault("rename_var", ["real", "real_"])
            it["id"] = k
            items.append(it)
    res = {r["id"]: r for r in run_extractor(items)} if items else {}
    out_lines = []
    linemap = []  # per generated line (1-based index-1): dict

    def emit(text, info_fn):
        for j, l in enumerate(text.split("\n")):
            out_lines.append(l)
            linemap.append(info_fn(j))

    header = "// GENERATED by /verif/vxlib/unit.py on every run from contracts/%s.vx and /repo -- do not edit\n#![feature(allocator_api)]\n#![allow(unused_imports, unused_variables, dead_code, unused_mut, non_snake_case, unused_parens, unused_braces)]\nuse vstd::prelude::*;\nverus! {\n" % unit_name
    emit(header.rstrip("\n"), lambda j: {"kind": "header"})
    extracted = []
    lemma_props = []
    lemmas = []
    errors = []
    failed = []
    for k, s in enumerate(segs):
        if s[0] == "lemma_props":
            lemma_props = s[1]
        elif s[0] == "raw":
            _, text, origin, first = s
            text = text.rstrip("\n")
            for j, l in enumerate(text.split("\n")):
                m = FN_RE.match(l)
                if m and (m.group(1) == "proof") and origin != "<canary>":
                    lemmas.append({"name": m.group(2), "props": list(lemma_props), "origin": origin, "line": first + j})
            emit(text, lambda j, origin=origin, first=first: {"kind": "raw", "origin": origin, "line": first + j})
        else:
            sp = s[1]
            r = res[k]
            if not r.get("ok"):
                errors.append(f"{sp['vx_path']}:{sp['vx_line']}: extract `{sp['file']} :: {sp['sel']}` failed: {r.get('error')}")
                failed.append({"file": sp["file"], "sel": sp["sel"], "props": sp["props"], "error": r.get("error"),
                               "fn_name": sp.get("rename") or sp["sel"].split("fn ")[-1].strip()})
                continue
            idx = len(extracted)
            text = r["text"].rstrip("\n")
            ls = r["line_src"]
            if r.get("has_body", True):
                # every extracted body is verified in its own solver process: its result does not depend on
                # which other functions happen to be in the unit (stability against unrelated edits)
                text = "#[verifier::spinoff_prover]\n" + text
                ls = [0] + list(ls)
                if sp.get("unproved_termination"):
                    # partial correctness only: termination of this (recursive) function is NOT verified -- listed in the evidence
                    text = "#[verifier::exec_allows_no_decreases_clause]\n" + text
                    ls = [0] + list(ls)
            start_gen = len(out_lines) + 1
            emit(text, lambda j, idx=idx, ls=ls, f=sp["file"]: {"kind": "extract", "item": idx, "src_file": f, "src_line": (ls[j] if j < len(ls) else 0)})
            extracted.append({
                "idx": idx,
                "file": sp["file"],
                "sel": sp["sel"],
                "fn_name": r["fn_name"],
                "has_body": r.get("has_body", True),
                "props": sp["props"],
                "src_lines": [r["src_start_line"], r["src_end_line"]],
                "gen_lines": [start_gen, len(out_lines)],
                "rules": r["rules"],
                "dropped_attrs": r["dropped_attrs"],
                "token_hash": r["token_hash"],
                "text_sha256": hashlib.sha256(r["text"].encode()).hexdigest()[:16],
                "vx": f"{sp['vx_path']}:{sp['vx_line']}",
                "identity": bool(sp.get("identity")),
            })
    emit("\n} // verus!\nfn main() {}", lambda j: {"kind": "footer"})
    # one directory per check process: checks of different properties may run concurrently and stack the same units
    out_path = out_path or os.path.join(ROOT, "build", f"run-{os.getpid()}", unit_name + ".rs")
    os.makedirs(os.path.dirname(out_path), exist_ok=True)
    tmp_path = out_path + ".tmp"
    with open(tmp_path, "w") as f:
        f.write("\n".join(out_lines) + "\n")
    os.replace(tmp_path, out_path)
    return {"unit": unit_name, "path": out_path, "extracted": extracted, "lemmas": lemmas, "linemap": linemap, "errors": errors, "failed": failed}


TRUST_PATTERNS = [
    ("external_body", re.compile(r"#\[verifier::external_body\]")),
    ("external_type_specification", re.compile(r"#\[verifier::external_type_specification\]")),
    ("external_trait_specification", re.compile(r"#\[verifier::external_trait_specification")),
    ("assume_specification", re.compile(r"\bassume_specification\b")),
    ("admit", re.compile(r"\badmit\s*\(")),
    ("assume", re.compile(r"\bassume\s*\(")),
    ("uninterp", re.compile(r"\buninterp\s+spec\s+fn\b")),
    ("termination not verified (exec_allows_no_decreases_clause)", re.compile(r"#\[verifier::exec_allows_no_decreases_clause\]")),
]


def trusted_scan(gen_path):
    """Mechanical scan of the generated file: every trusted construct with the declaration that follows it."""
    out = []
    lines = _read(gen_path).split("\n")
    for i, l in enumerate(lines):
        code = l.split("//")[0]
        for name, pat in TRUST_PATTERNS:
            if pat.search(code):
                # find the next declaration line
                decl = code.strip()
                if name in ("external_body", "external_type_specification", "external_trait_specification") or name.startswith("termination"):
                    for j in range(i + 1, min(i + 6, len(lines))):
                        t = lines[j].strip()
                        if t and not t.startswith("#[") and not t.startswith("//"):
                            decl = t
                            break
                decl = re.sub(r"\s+", " ", decl)[:160]
                out.append(f"{name}: {decl}")
    return out
