"""C09 bounded stand-in for the triangulation (mut_arrays_remaining_elements / create_fx_array): the deterministic probe of
replay/src/probe_fx.rs is run on the REAL compiled code on every check.  It is exploration with a stated bound, never
counted as proved: the obligations it contributes carry tier "Kb"-like status `bounded`."""
import json
import os
import subprocess
import time

ROOT = os.path.dirname(os.path.dirname(os.path.abspath(__file__)))
REPLAY_BIN = os.path.join(ROOT, ".cache", "target-replay", "release", "vx-replay")


def run(pid, tier, seed):
    out = {"obligations": [], "violations": [], "undecided": [], "cmds": [], "trusted": [], "solver_s": {}, "guards": {}, "coverage": {}, "samples": []}
    t0 = time.time()
    env = dict(os.environ, CARGO_NET_OFFLINE="true", VERIF_TIER=tier)
    b = subprocess.run(["cargo", "build", "--release", "--offline"], cwd=os.path.join(ROOT, "replay"), capture_output=True, text=True, timeout=1800, env=env)
    if b.returncode != 0:
        out["undecided"].append("replay crate does not build against /repo: " + b.stderr[-600:])
        return out
    cmd = [REPLAY_BIN, "probe", "create_fx_array"]
    out["cmds"].append("VERIF_TIER=%s %s" % (tier, " ".join(cmd)))
    try:
        p = subprocess.run(cmd, capture_output=True, text=True, timeout=1800, env=env)
    except subprocess.TimeoutExpired:
        out["undecided"].append("probe timed out")
        return out
    rec = None
    for line in p.stdout.split("\n"):
        line = line.strip()
        if line.startswith("{"):
            try:
                rec = json.loads(line)
            except Exception:  # noqa
                pass
    nmax = 12 if tier == "thorough" else 8
    bound = f"quote trees on 2..{nmax} currencies: chain, star, binary, interleaved, irregular, caterpillar shapes; every orientation of every quote for n <= 7 (5 patterns above); up to 4 rotations of the quote list; 4 base choices; 9 degenerate quote sets; update / order histories of 10 steps on 2..5 currencies"
    if rec is None:
        out["undecided"].append("probe produced no result (crashed?): " + (p.stderr[-400:] or p.stdout[-400:]))
        return out
    name = "c09::triangulation_probe (bounded)"
    if rec.get("holds") is False:
        out["obligations"].append({"name": name, "backend": "native-exec", "tier": "Kb", "status": "failed", "ms": int((time.time() - t0) * 1000), "bound": bound})
        out["violations"].append({"obligation": name, "kind": "bounded probe on the real code found a counterexample", "where": "rust/fx/rates/mod.rs", "code": "",
                                  "verifier_output": "", "counterexample": rec, "item": None, "unit": "c09", "bounded": True})
    else:
        ev = int(rec.get("evaluations", 0))
        cases = int(rec.get("cases", 0))
        out["guards"]["c09 probe explored a non-empty set of markets"] = cases > 0
        if cases == 0:
            out["undecided"].append("probe explored nothing (vacuous)")
        out["obligations"].append({"name": name, "backend": "native-exec", "tier": "Kb", "status": "bounded-ok", "ms": int((time.time() - t0) * 1000), "bound": bound})
        out["coverage"] = {
            "evaluations": ev,
            "distinct_nontrivial": cases,
            "rule": "evaluations = cross rates (and, at first order, sensitivities) compared with the path-product oracle on the quote tree; a case is one (tree shape, orientation mask, quote order, base) market or one history step, all distinct by construction; every case has >= 2 currencies so no case is trivial",
            "exhaustive": False,
            "bounded": [{"harness": "probe::create_fx_array", "bound": bound, "status": "no counterexample", "what": "stand-in for mut_arrays_remaining_elements / create_fx_array, which are outside the verifier's reach (recursion over sum_axis / zip / filter / max_by_key / itertools::combinations / HashSet)"}],
        }
        out["samples"].append(rec.get("sample", ""))
    out["solver_s"]["native-exec"] = time.time() - t0
    out["trusted"].append("replay/src/probe_fx.rs: the oracle (path product on the quote tree found by breadth-first search) is written from the property text; rustc codegen")
    return out
