"""Replay files for violations."""
import json
import os
import re
import subprocess

ROOT = os.path.dirname(os.path.dirname(os.path.abspath(__file__)))
REPLAY_BIN = os.path.join(ROOT, ".cache", "target-replay", "release", "vx-replay")


LAST_PROBE_CASES = 0


def run_probe(fn):
    """Runs the native probe search for one function name on the real compiled code. Returns the failing-input record or None."""
    try:
        subprocess.run(["cargo", "build", "--release", "--offline"], cwd=os.path.join(ROOT, "replay"), capture_output=True, timeout=900,
                       env=dict(os.environ, CARGO_NET_OFFLINE="true"))
        p = subprocess.run([REPLAY_BIN, "probe", fn], capture_output=True, text=True, timeout=600)
        for line in p.stdout.split("\n"):
            line = line.strip()
            if line.startswith("{"):
                j = json.loads(line)
                if j.get("holds") is False:
                    return j
        if p.returncode != 0:
            return _aborted(fn, p)
    except subprocess.TimeoutExpired:
        return {"kind": "probe", "name": fn, "input": "the probe run of the real code did not finish within 600 s (it finishes in seconds on the unchanged tree): non-termination", "observed": "no result", "expected": "a result", "holds": False}
    except Exception:  # noqa
        return None
    return None


def _aborted(fn, p):
    """The real code brought the probe process down (stack overflow, abort, signal): that IS a failing run."""
    return {"kind": "probe", "name": fn,
            "input": "the probe process running the real code ended abnormally (exit status %s) before finishing its grid; last output: %s | stderr: %s"
                     % (p.returncode, (p.stdout or "")[-200:].replace("\n", " "), (p.stderr or "")[-300:].replace("\n", " ")),
            "observed": "process abort (e.g. unbounded recursion / stack overflow)", "expected": "a value or an error", "holds": False}


def make_replay(pid, v, tier):
    """Writes replays/<pid>-<obligation>.json. Returns (path, failing_input_found)."""
    safe = re.sub(r"[^A-Za-z0-9_.-]", "_", v["obligation"])
    path = os.path.join(ROOT, "replays", f"{pid}-{safe}.json")
    rec = {
        "property": pid,
        "obligation": v["obligation"],
        "failure": v["kind"],
        "where": v["where"],
        "code": v.get("code"),
        "verifier_output": v.get("verifier_output"),
        "counterexample": v.get("counterexample"),
        "failing_input": None,
        "replay_on_real_code": None,
    }
    found = False
    if v.get("counterexample"):
        rec["failing_input"] = v["counterexample"]
        found = True
    # native probe search on the real compiled code (replay aid; not the decision procedure)
    fn = v["obligation"].split(" [")[0].split("::")[-1].split(" ")[0]
    if not found and os.path.exists(REPLAY_BIN):
        try:
            subprocess.run(["cargo", "build", "--release", "--offline"], cwd=os.path.join(ROOT, "replay"), capture_output=True, timeout=900,
                           env=dict(os.environ, CARGO_NET_OFFLINE="true"))
            p = subprocess.run([REPLAY_BIN, "probe", fn], capture_output=True, text=True, timeout=600)
            for line in p.stdout.split("\n"):
                line = line.strip()
                if line.startswith("{"):
                    j = json.loads(line)
                    if j.get("holds") is False:
                        rec["failing_input"] = j.get("input")
                        rec["replay_on_real_code"] = j
                        found = True
                        break
            if not found and p.returncode != 0:
                j = _aborted(fn, p)
                rec["failing_input"] = j["input"]
                rec["replay_on_real_code"] = j
                found = True
            if not found:
                cases = 0
                for line in p.stdout.split("\n"):
                    line = line.strip()
                    if line.startswith("{") and '"cases"' in line:
                        try:
                            cases = max(cases, int(json.loads(line).get("cases", 0)))
                        except Exception:  # noqa
                            pass
                rec["replay_on_real_code"] = {"probe": fn, "result": "no failing input found by the probe search", "cases": cases, "stdout_tail": p.stdout[-400:]}
        except Exception as e:  # noqa
            rec["replay_on_real_code"] = {"probe": fn, "error": str(e)}
    with open(path, "w") as f:
        json.dump(rec, f, indent=1)
    global LAST_PROBE_CASES
    LAST_PROBE_CASES = (rec.get("replay_on_real_code") or {}).get("cases", 0) if not found else 0
    return path, found
