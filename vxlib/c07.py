"""C07 engine: tier X = verified checker executed on mechanically extracted tables.

1. extraction (this file): HOLIDAYS / WEEKMASK constants of rust/calendars/named/<x>.rs (strings of the exact shape
   "YYYY-MM-DD 00:00:00" -> day numbers; anything else aborts the run), the `pub mod` list and the two
   HashMap::from([...]) name->table wirings of named/mod.rs, the calendar names documented in
   python/rateslib/calendars/rs.py, the reference_date column of the nine *_rfr.csv files.
2. c07/template.rs: a Verus-verified checker (each check_* function is proved to return true only if the
   table/rule relation holds for every day 1970-01-01..2200-12-31).
3. the generated program (template + data) is verified AND compiled by `verus --compile` and then run; its output
   lines {"check":..., "ok":...} are the instance-level decisions.
"""
import csv
import datetime
import json
import os
import re
import subprocess
import time

ROOT = os.path.dirname(os.path.dirname(os.path.abspath(__file__)))
REPO = os.environ.get("VERIF_REPO", "/repo")
NAMED = os.path.join(REPO, "rust", "calendars", "named")

FULL = {"tgt": 0, "nyc": 1, "fed": 2, "ldn": 3, "stk": 4, "osl": 5, "zur": 6}
# documented plain fixed-date (month, day) and Easter-linked (offset from Easter Sunday) holidays of the other calendars
# (from the RULES constants of named/<x>.rs; entries with observance shifts or start/end years are not "plain")
PARTIAL = {
    "tro": ([], [-2]),
    "tyo": ([(1, 1), (1, 2), (1, 3), (12, 31)], []),
    "syd": ([(1, 1), (1, 26), (4, 25), (12, 25), (12, 26)], [-2, 1]),
    "wlg": ([(1, 1), (1, 2), (2, 6), (4, 25), (12, 25), (12, 26)], [-2, 1]),
    "mum": ([(1, 26), (4, 14), (5, 1), (8, 15), (10, 2), (12, 25)], [-2]),
}
CSV = {"usd": "nyc", "gbp": "ldn", "cad": "tro", "eur": "tgt", "jpy": "tyo", "sek": "stk", "nok": "osl", "aud": "syd", "inr": "mum"}


class Undecided(Exception):
    pass


def dnum(y, m, d):
    return (datetime.date(y, m, d) - datetime.date(1970, 1, 1)).days


def parse_table(mod):
    p = os.path.join(NAMED, mod + ".rs")
    s = open(p).read()
    m = re.search(r"pub const HOLIDAYS: &\[&str\] = &\[(.*?)\];", s, re.S)
    if not m:
        raise Undecided(f"{p}: HOLIDAYS constant not found")
    body = re.sub(r"//[^\n]*", "", m.group(1))
    items = [x.strip() for x in body.split(",") if x.strip()]
    out = []
    for it in items:
        mm = re.fullmatch(r'"(\d{4})-(\d{2})-(\d{2}) 00:00:00"', it)
        if not mm:
            raise Undecided(f"{p}: unexpected HOLIDAYS entry {it!r}")
        out.append(dnum(int(mm.group(1)), int(mm.group(2)), int(mm.group(3))))
    w = re.search(r"pub const WEEKMASK: &\[u8\] = &\[([^\]]*)\];", s)
    if not w:
        raise Undecided(f"{p}: WEEKMASK constant not found")
    mask = [int(x) for x in w.group(1).split(",") if x.strip()]
    return out, mask


def parse_wiring():
    s = open(os.path.join(NAMED, "mod.rs")).read()
    s = re.sub(r"//[^\n]*", "", s.split("#[cfg(test)]")[0])
    mods = re.findall(r"^pub mod (\w+);", s, re.M)
    wiring = {}
    for fn, const in (("get_weekmask_by_name", "WEEKMASK"), ("get_holidays_by_name", "HOLIDAYS")):
        m = re.search(r"fn " + fn + r"\(.*?HashMap::from\(\[(.*?)\]\);", s, re.S)
        if not m:
            raise Undecided("mod.rs: wiring of " + fn + " not found")
        pairs = re.findall(r'\(\s*"(\w+)"\s*,\s*(\w+)::(\w+)\s*\)', m.group(1))
        if not pairs:
            raise Undecided("mod.rs: no entries in " + fn)
        for name, mod, c in pairs:
            if c != const:
                raise Undecided(f"mod.rs: {fn} maps {name} to {mod}::{c}")
            wiring.setdefault(name, {})[const] = mod
    return mods, wiring


def parse_doc_names():
    s = open(os.path.join(REPO, "python", "rateslib", "calendars", "rs.py")).read()
    return re.findall(r'^\s*- \*"(\w+)"\*:', s, re.M)


def parse_csv(ccy):
    p = os.path.join(REPO, "python", "rateslib", "data", ccy + "_rfr.csv")
    rows = list(csv.reader(open(p, encoding="utf-8-sig")))
    out = []
    for r in rows[1:]:
        if not r or not r[0].strip():
            continue
        mm = re.fullmatch(r"(\d{2})-(\d{2})-(\d{4})", r[0].strip())
        if not mm:
            raise Undecided(f"{p}: unexpected date {r[0]!r}")
        out.append(dnum(int(mm.group(3)), int(mm.group(2)), int(mm.group(1))))
    return sorted(set(out))


def vec(name, xs):
    return f"#[verifier::external_body]\nfn {name}() -> Vec<i64> {{ vec![{', '.join(str(x) for x in xs)}] }}\n"


def run(pid, tier, seed):
    t0 = time.time()
    out = {"obligations": [], "violations": [], "undecided": [], "cmds": [], "trusted": [], "solver_s": {}, "guards": {}, "coverage": {}, "samples": []}
    try:
        mods, wiring = parse_wiring()
        tables = {}
        for mod in set(mods):
            tables[mod] = parse_table(mod)
        docs = parse_doc_names()
        csvs = {c: parse_csv(c) for c in CSV}
    except Undecided as e:
        out["undecided"].append("extraction: " + str(e))
        return out
    except Exception as e:  # noqa
        out["undecided"].append("extraction failed: " + repr(e))
        return out

    def wired(name, const):
        mod = wiring.get(name, {}).get(const)
        if mod is None or mod not in tables:
            return None
        return tables[mod][0] if const == "HOLIDAYS" else tables[mod][1]

    pychecks = []  # (name, ok, detail)  -- purely syntactic wiring checks
    for n in docs:
        ok = wired(n, "HOLIDAYS") is not None and wired(n, "WEEKMASK") is not None
        pychecks.append((f"documented_name_resolves::{n}", ok, f"'{n}' listed in python/rateslib/calendars/rs.py must be a key of both maps in named/mod.rs"))
    for n in list(FULL) + list(PARTIAL) + ["all", "bus"]:
        if n not in docs:
            pychecks.append((f"documented::{n}", False, f"calendar {n} is not listed in the documentation"))

    data = []
    main = ["fn main() {"]
    planned = []
    for n, code in FULL.items():
        h = wired(n, "HOLIDAYS")
        if h is None:
            pychecks.append((f"iff_rules::{n}", False, "name does not resolve"))
            continue
        data.append(vec(f"t_{n}", sorted(set(h))))
        main.append(f'    let t = t_{n}(); emit("iff_rules::{n}", check_iff({code}, &t));')
        planned.append(f"iff_rules::{n}")
    if wired("nyc", "HOLIDAYS") is not None and wired("fed", "HOLIDAYS") is not None:
        main.append('    let a = t_nyc(); let b = t_fed(); emit("fed_is_nyc_without_good_friday", check_minus_good_friday(&a, &b));')
        planned.append("fed_is_nyc_without_good_friday")
    for n in ("all", "bus"):
        h = wired(n, "HOLIDAYS")
        pychecks.append((f"no_holidays::{n}", h is not None and len(h) == 0, f"'{n}' must have an empty holiday table"))
    for n, (fx, ea) in PARTIAL.items():
        h = wired(n, "HOLIDAYS")
        if h is None:
            pychecks.append((f"contains_documented::{n}", False, "name does not resolve"))
            continue
        data.append(vec(f"t_{n}", sorted(set(h))))
        data.append(f"#[verifier::external_body]\nfn fx_{n}() -> Vec<(i64, i64)> {{ vec![{', '.join(f'({m}, {d})' for m, d in fx)}] }}\n")
        data.append(vec(f"ea_{n}", ea))
        main.append(f'    let t = t_{n}(); let f = fx_{n}(); let e = ea_{n}(); if all_small(&e) {{ emit("contains_documented::{n}", check_contains_fixed_and_easter(&t, &f, &e)); }} else {{ emit("contains_documented::{n}", false); }}')
        planned.append(f"contains_documented::{n}")
    for ccy, cal in CSV.items():
        h = wired(cal, "HOLIDAYS")
        w = wired(cal, "WEEKMASK")
        d = csvs[ccy]
        if h is None or w is None or not d:
            pychecks.append((f"fixings::{ccy}/{cal}", False, "name does not resolve or empty csv"))
            continue
        data.append(vec(f"p_{ccy}", sorted(set(d))))
        data.append(vec(f"m_{ccy}", w))
        tn = f"t_{cal}"
        if not any(x.startswith(f"#[verifier::external_body]\nfn {tn}()") for x in data):
            data.append(vec(tn, sorted(set(h))))
        lo, hi = d[0], d[-1]
        main.append(f'    let t = {tn}(); let m = m_{ccy}(); let p = p_{ccy}(); emit("fixings::{ccy}/{cal}", check_business_days(&t, &m, &p, {lo}, {hi}));')
        planned.append(f"fixings::{ccy}/{cal}")
    main.append("}")
    extra = '''
/// runtime guard for the Easter-offset precondition
pub fn all_small(e: &Vec<i64>) -> (r: bool) ensures r ==> forall|i: int| 0 <= i < e@.len() ==> -100 <= #[trigger] e@[i] <= 100 {
    let mut i: usize = 0;
    while i < e.len()
        invariant 0 <= i <= e.len(), forall|j: int| 0 <= j < i ==> -100 <= #[trigger] e@[j] <= 100,
        decreases e.len() - i,
    {
        if e[i] < -100 || e[i] > 100 { return false; }
        i += 1;
    }
    true
}
'''
    tpl = open(os.path.join(ROOT, "c07", "template.rs")).read()
    prog = tpl.replace("//@GENERATED_DATA@", "// ---- GENERATED DATA (vxlib/c07.py)\n" + extra + "\n".join(data) + "\n" + "\n".join(main))
    os.makedirs(os.path.join(ROOT, "build"), exist_ok=True)
    src = os.path.join(ROOT, "build", "c07_check.rs")
    binp = os.path.join(ROOT, "build", "c07_check")
    open(src, "w").write(prog)
    cmd = ["verus", src, "--triggers-mode", "silent", "--rlimit", "80", "--output-json", "--time", "--compile", "-o", binp]
    out["cmds"].append(" ".join(cmd) + " && " + binp)
    try:
        p = subprocess.run(cmd, capture_output=True, text=True, cwd=os.path.join(ROOT, "build"), timeout=1800)
    except subprocess.TimeoutExpired:
        out["undecided"].append("verus --compile timed out")
        return out
    try:
        j = json.loads(p.stdout[p.stdout.index("{"):])
    except Exception:
        out["undecided"].append("verus produced no JSON for the checker: " + p.stderr[-800:])
        return out
    vr = j.get("verification-results", {})
    smt = 0.0
    nfun = 0
    for mod in j.get("times-ms", {}).get("smt", {}).get("smt-run-module-times", []):
        for fb in mod.get("function-breakdown", []):
            smt += fb.get("time", 0) / 1000.0
            nfun += 1
            out["obligations"].append({"name": "c07::checker::" + fb["function"].split("::")[-1], "backend": "verus-z3", "tier": "V",
                                       "status": "discharged" if fb.get("success") else "failed", "ms": fb.get("time", 0)})
    out["solver_s"]["verus-z3"] = smt
    if not vr.get("success") or vr.get("errors", 1) != 0:
        out["undecided"].append("the generic checker itself did not verify (independent of /repo): " + p.stderr[-600:])
        return out
    if not os.path.exists(binp):
        out["undecided"].append("verus --compile produced no binary: " + p.stderr[-600:])
        return out
    t1 = time.time()
    r = subprocess.run([binp], capture_output=True, text=True, timeout=600)
    out["solver_s"]["verus-compiled-exec"] = time.time() - t1
    results = {}
    for line in r.stdout.split("\n"):
        line = line.strip()
        if line.startswith("{"):
            try:
                jj = json.loads(line)
                results[jj["check"]] = jj["ok"]
            except Exception:
                pass
    if r.returncode != 0:
        out["undecided"].append(f"checker binary exited with {r.returncode}: {r.stderr[-300:]}")
        return out
    os.makedirs(os.path.join(ROOT, "replays"), exist_ok=True)
    for name in planned:
        if name not in results:
            out["undecided"].append(f"checker did not report {name}")
            continue
        ok = results[name]
        out["obligations"].append({"name": "c07::" + name, "backend": "verus-compiled-exec", "tier": "X", "status": "discharged" if ok else "failed", "ms": 0})
        if not ok:
            out["violations"].append({"obligation": "c07::" + name, "kind": "executed verified checker returned false", "where": "rust/calendars/named", "code": name,
                                      "verifier_output": "", "counterexample": first_mismatch(name, tables, wiring, csvs), "item": None, "unit": "c07", "bounded": False})
    for name, ok, detail in pychecks:
        out["obligations"].append({"name": "c07::" + name, "backend": "verus-compiled-exec", "tier": "X(syntactic wiring check)", "status": "discharged" if ok else "failed", "ms": 0})
        if not ok:
            out["violations"].append({"obligation": "c07::" + name, "kind": "wiring / documentation check failed", "where": "rust/calendars/named/mod.rs", "code": detail,
                                      "verifier_output": "", "counterexample": {"input": detail, "holds": False}, "item": None, "unit": "c07"})
    # ---- translation validation of the extraction: the runtime calendars agree with the extracted tables on every day
    try:
        tj = {}
        for n in wiring:
            h = wired(n, "HOLIDAYS")
            w = wired(n, "WEEKMASK")
            if h is not None and w is not None:
                tj[n] = {"holidays": sorted(set(h)), "mask": list(w)}
        tpath = os.path.join(ROOT, "build", "c07_tables.json")
        json.dump(tj, open(tpath, "w"))
        env = dict(os.environ, CARGO_NET_OFFLINE="true")
        b = subprocess.run(["cargo", "build", "--release", "--offline"], cwd=os.path.join(ROOT, "replay"), capture_output=True, text=True, timeout=1800, env=env)
        binr = os.path.join(ROOT, ".cache", "target-replay", "release", "vx-replay")
        if b.returncode != 0 or not os.path.exists(binr):
            out["undecided"].append("replay crate does not build against /repo: " + b.stderr[-400:])
        else:
            t2 = time.time()
            r2 = subprocess.run([binr, "calsweep", tpath], capture_output=True, text=True, timeout=900)
            out["solver_s"]["native-exec"] = time.time() - t2
            out["cmds"].append(f"{binr} calsweep {tpath}")
            rec = None
            for line in r2.stdout.split("\n"):
                if line.strip().startswith("{"):
                    try:
                        rec = json.loads(line.strip())
                    except Exception:  # noqa
                        pass
            nm = "c07::runtime_calendars_agree_with_extracted_tables"
            if rec is None:
                out["undecided"].append("calsweep produced no result: " + r2.stderr[-300:])
            elif rec.get("holds") is True:
                out["obligations"].append({"name": nm, "backend": "native-exec", "tier": "X(exhaustive native sweep: %d evaluations)" % rec.get("evaluations", 0), "status": "discharged", "ms": int((time.time() - t2) * 1000)})
            else:
                out["obligations"].append({"name": nm, "backend": "native-exec", "tier": "X", "status": "failed", "ms": 0})
                out["violations"].append({"obligation": nm, "kind": "the calendar object built at run time disagrees with the tables in the sources", "where": "rust/calendars/named/mod.rs, rust/calendars/calendar.rs",
                                          "code": "", "verifier_output": "", "counterexample": rec, "item": None, "unit": "c07"})
    except Exception as e:  # noqa
        out["undecided"].append("calsweep failed: " + repr(e))
    out["trusted"] += [
        "c07: published rule sets transcribed into c07/template.rs from RULES / <x>_script.py (pandas Holiday semantics: sunday_to_monday, nearest_workday, next_monday, next_monday_or_tuesday, n-th weekday offsets, start/end dates)",
        "c07: anonymous Gregorian computus for Easter; Hinnant civil-from-days arithmetic (the spec functions ARE these formulas)",
        "c07: table data functions t_*/p_*/m_* are external_body (mechanically generated vec! literals); the regex extraction in vxlib/c07.py",
        "c07: rustc code generation of the verified checker (verus --compile)",
    ]
    out["guards"]["c07: checker verified with 0 errors (%d functions)" % nfun] = True
    out["coverage"] = {
        "explanation": "Tier X: a generic checker is proved by Verus to imply the table/rule relation for every date 1970-01-01..2200-12-31 for ANY table; the tables extracted from /repo on this run are then decided by executing the compiled verified checker (exhaustive over all 84371 days per calendar, not a sample).",
        "exhaustive": True,
        "evaluations": 84371 * len(planned),
        "distinct_nontrivial": len(planned),
        "rule": "one evaluation = one (check, day) pair decided by the executed verified checker; a check is non-trivial if its table is non-empty",
        "extracted": {"modules": sorted(set(mods)), "wiring": wiring, "documented_names": docs, "csv_rows": {c: len(v) for c, v in csvs.items()}},
    }
    out["samples"] = planned[:4]
    return out


def first_mismatch(name, tables, wiring, csvs):
    """replay aid: locate the first offending day with the Python twins of the rules and replay it on the real code"""
    from vxlib import c07_rules_py as R
    try:
        def wired(n):
            mod = wiring.get(n, {}).get("HOLIDAYS")
            return set(tables[mod][0]) if mod in tables else None
        day = None
        exp = None
        cal = None
        if name.startswith("iff_rules::"):
            cal = name.split("::")[1]
            t = wired(cal)
            for z in range(0, 84371):
                if R.date(z).weekday() < 5 and ((z in t) != R.RULES[cal](z)):
                    day, exp = z, R.RULES[cal](z)
                    break
        elif name == "fed_is_nyc_without_good_friday":
            cal = "fed"
            a, b = wired("nyc"), wired("fed")
            for z in range(0, 84371):
                want = (z in a) and not R.east(z, -2)
                if (z in b) != want:
                    day, exp = z, want
                    break
        elif name.startswith("contains_documented::"):
            cal = name.split("::")[1]
            t = wired(cal)
            fx, ea = PARTIAL[cal]
            for z in range(0, 84371):
                if R.date(z).weekday() < 5 and z not in t and (any(R.fixed(z, m, d) for m, d in fx) or any(R.east(z, o) for o in ea)):
                    day, exp = z, True
                    break
        elif name.startswith("fixings::"):
            ccy, cal = name.split("::")[1].split("/")
            t = wired(cal)
            d = set(csvs[ccy])
            mask = tables[wiring[cal]["WEEKMASK"]][1]
            for z in range(min(d), max(d) + 1):
                bus = R.date(z).weekday() not in mask and z not in t
                if bus != (z in d):
                    day, exp = z, not (z in d)   # expected holiday flag
                    if R.date(z).weekday() in mask:
                        exp = None
                    break
        if day is None:
            return None
        ds = str(R.date(day))
        rec = {"input": f"get_calendar_by_name(\"{cal}\").is_holiday({ds})", "expected": exp, "holds": False}
        binp = os.path.join(ROOT, ".cache", "target-replay", "release", "vx-replay")
        if os.path.exists(binp):
            subprocess.run(["cargo", "build", "--release", "--offline"], cwd=os.path.join(ROOT, "replay"), capture_output=True, timeout=900,
                           env=dict(os.environ, CARGO_NET_OFFLINE="true"))
            r = subprocess.run([binp, "calq", cal, ds], capture_output=True, text=True, timeout=60)
            rec["observed_on_real_code"] = r.stdout.strip()
        return rec
    except Exception as e:  # noqa
        return {"input": name, "note": "could not locate an offending date: " + repr(e), "holds": False}
