"""Texts for MANIFEST.json (kept apart from the machinery)."""

HOOKS = {
    "guard": "cfg(any(kani, rateslib_verif))",
    "enable": "Kani sets cfg(kani) itself; native replay builds may set RUSTFLAGS='--cfg rateslib_verif'. Verus units need no hooks (functions are extracted from source text).",
    "baseline_off_cmd": "cd /repo && cargo test --workspace --no-fail-fast --offline",
    "source_commits": [],
    "add_only": True,
}

ENGINES = [
    {"name": "verus-extract", "path": "/verif/verif.py", "serves_properties": ["C04"], "kind_free_text": "deductive verification (Verus/Z3) of function bodies extracted mechanically from /repo on every run, against contracts in /verif/contracts"},
]

NOTES = "Family: contract-based deductive verification of the real code. See DESIGN.md. Exit codes: 0 held, 1 VIOLATION, 2 undecided (tool problem / lost anchor; never a violation). Genuine defects repaired in /repo are listed in KNOWN_FINDINGS.txt as fixed:."

NOT_APPLICABLE = {
    "C09": "core claim needs a graph-theoretic inductive invariant over itertools/HashSet/ndarray code that neither Verus (single-file, no ndarray/itertools) nor Kani (hashing containers do not terminate under CBMC) reaches; see DESIGN.md §7 C09",
    "C15": "needs an unbounded proof of the f64 linear solver plus Schoenberg-Whitney/Marsden spline theory; not expressible as contracts Z3 can discharge here; see DESIGN.md §7 C15",
    "C16": "implementation is serde derive expansions + serde_json/bincode; no rateslib function body to put a contract on; see DESIGN.md §7 C16",
}

TEXT = {
    "C04": {
        "technique": "Verus contracts (requires/ensures, loop invariants + decreases) on the extracted DateRoll roll_* bodies; lemmas over the contracts",
        "level_text": "Proof: every roll_* default method of trait DateRoll, roll and the two dispatch functions are extracted from /repo on each run and verified by Verus against postconditions taken from the property (first eligible day in the direction; modified variants by (year, month); Act unchanged) for an arbitrary calendar (three uninterpreted predicates), every date, every modifier, both settlement flags, loops by invariant with termination. 'Eligible dates never move' and idempotence are lemmas over those contracts.",
        "level_note": "Assumes the chrono shim (day-number view, midnight times, Gregorian axioms, +/-Days overflow precondition), existence of an eligible day in the search direction inside chrono's range, static instead of dynamic dispatch (R7). Trusted: Verus/Z3, the extractor.",
        "design_ref": "DESIGN.md §7 C04",
    },
    "C05": {
        "technique": "Verus contracts on the extracted add_bus_days / lag / add_days / bus_date_range / cal_date_range bodies (loop invariants relate the i8 counter to a recursive business-day count); lemmas over the contracts",
        "level_text": "Proof: the bodies are extracted from /repo each run and verified for an arbitrary calendar, every start date and every i8 day count: add_bus_days returns the unique date with exactly |n| business days between it and the start (recursive count spec), then the first settlement-eligible day onward in the direction of n (forward for 0); non-business start is Err; lag follows its three-case rule; bus_date_range is exactly the ordered business days of the calendar range; add_days is shift-then-adjust. Inverse law, n=0 identity and uniqueness of the n-th business day are lemmas over the contracts. i8 counter overflow freedom is part of the obligations.",
        "level_note": "Assumes the chrono shim, and that the requested n-th business day / settlement day exists inside chrono's range. Trusted: Verus/Z3, the extractor.",
        "design_ref": "DESIGN.md §7 C05",
    },
    "C08": {
        "technique": "Verus contracts on the extracted add_months / get_roll / get_roll_by_day / get_imm / is_imm / get_eom / is_eom / is_leap_year / ndt bodies against a month-index oracle",
        "level_text": "Proof: for every start date, every i32 month offset whose target year is representable, every roll kind and day 1-31, every modifier: add_months returns roll(modifier) of the date with month index = start index + m and day = requested roll day capped at the month length (own day / n / last / first / third Wednesday); get_imm is the unique Wednesday with day 15..21; get_eom is the last day (loop with invariant and termination); is_leap_year is the Gregorian rule. The oracle is month-index arithmetic, independent of the code's abs/signum/rem_euclid carry logic; all integer overflow, unwrap and panic sites are obligations.",
        "level_note": "Assumes the chrono shim (from_ymd_opt is Some iff the civil date exists; Gregorian axioms) and specs for i32::abs/signum/rem_euclid/try_from. Trusted: Verus/Z3, the extractor.",
        "design_ref": "DESIGN.md §7 C08",
    },
    "C20": {
        "technique": "Verus: every panic!/unwrap/expect/integer operation in the extracted bodies is an obligation (R8: panic! -> requires false)",
        "level_text": "Proof (partial scope): the date arithmetic (add_days, add_bus_days, lag, roll, add_months, get_roll, get_roll_by_day, get_eom, bus_date_range, cal_date_range) has no reachable panic, failed unwrap or integer overflow for any i8 day count, any month offset whose target year is representable, roll days 1-31, any modifier and flag, any calendar.",
        "level_note": "Partial: JSON text, Ccy/NamedCal string handling are not covered (listed as uncovered). Assumes the chrono shim; preconditions are exactly: results stay in chrono's range and an eligible day exists in the search direction.",
        "design_ref": "DESIGN.md §7 C20",
    },
}
