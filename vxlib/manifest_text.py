"""Texts for MANIFEST.json (kept apart from the machinery)."""

HOOKS = {
    "guard": "cfg(any(kani, rateslib_verif))",
    "enable": "Kani sets cfg(kani) itself; native replay builds may set RUSTFLAGS='--cfg rateslib_verif'. Verus units need no hooks (functions are extracted from source text).",
    "baseline_off_cmd": "cd /repo && cargo test --workspace --no-fail-fast --offline",
    "source_commits": [],
    "add_only": True,
}

ENGINES = [
    {"name": "verus-extract", "path": "/verif/verif.py", "serves_properties": ["C04"], "kind_free_text": "deductive verification (Verus/Z3) of function bodies extracted mechanically from /repo on every run, against contracts in /verif/contracts"},
]

NOTES = "Family: contract-based deductive verification of the real code. See DESIGN.md. Exit codes: 0 held, 1 VIOLATION, 2 undecided (tool problem / lost anchor; never a violation). Genuine defects repaired in /repo are listed in KNOWN_FINDINGS.txt as fixed:."

NOT_APPLICABLE = {
    "C09": "core claim needs a graph-theoretic inductive invariant over itertools/HashSet/ndarray code that neither Verus (single-file, no ndarray/itertools) nor Kani (hashing containers do not terminate under CBMC) reaches; see DESIGN.md §7 C09",
    "C15": "needs an unbounded proof of the f64 linear solver plus Schoenberg-Whitney/Marsden spline theory; not expressible as contracts Z3 can discharge here; see DESIGN.md §7 C15",
    "C16": "implementation is serde derive expansions + serde_json/bincode; no rateslib function body to put a contract on; see DESIGN.md §7 C16",
}

TEXT = {
    "C04": {
        "technique": "Verus contracts (requires/ensures, loop invariants + decreases) on the extracted DateRoll roll_* bodies; lemmas over the contracts",
        "level_text": "Proof: every roll_* default method of trait DateRoll, roll and the two dispatch functions are extracted from /repo on each run and verified by Verus against postconditions taken from the property (first eligible day in the direction; modified variants by (year, month); Act unchanged) for an arbitrary calendar (three uninterpreted predicates), every date, every modifier, both settlement flags, loops by invariant with termination. 'Eligible dates never move' and idempotence are lemmas over those contracts.",
        "level_note": "Assumes the chrono shim (day-number view, midnight times, Gregorian axioms, +/-Days overflow precondition), existence of an eligible day in the search direction inside chrono's range, static instead of dynamic dispatch (R7). Trusted: Verus/Z3, the extractor.",
        "design_ref": "DESIGN.md §7 C04",
    },
}
