"""Texts for MANIFEST.json (kept apart from the machinery)."""

HOOKS = {
    "guard": "cfg(any(kani, rateslib_verif))",
    "enable": "Kani sets cfg(kani) itself for every crate it compiles, which switches on rust/dual/linalg/mod.rs::verif_hooks (public wrappers over the crate-private argabsmax / row_swap / el_swap); native builds may set RUSTFLAGS='--cfg rateslib_verif'. Verus units need no hooks (functions are extracted from source text). Cargo.toml declares the two cfg names under [lints.rust] so that the guard produces no warnings when off.",
    "baseline_off_cmd": "cd /repo && cargo test --workspace --no-fail-fast --offline",
    "source_commits": ["0b1e0ad"],
    "add_only": True,
}

ENGINES = [
    {"name": "verus-extract", "path": "/verif/verif.py", "serves_properties": ["C04"], "kind_free_text": "deductive verification (Verus/Z3) of function bodies extracted mechanically from /repo on every run, against contracts in /verif/contracts"},
]

NOTES = "Family: contract-based deductive verification of the real code. See DESIGN.md. Exit codes: 0 held, 1 VIOLATION, 2 undecided (tool problem / lost anchor; never a violation). Genuine defects repaired in /repo are listed in KNOWN_FINDINGS.txt as fixed:."

NOT_APPLICABLE = {
    "C16": "implementation is serde derive expansions + serde_json/bincode; no rateslib function body to put a contract on; see DESIGN.md §7 C16",
}

TEXT = {
    "C04": {
        "technique": "Verus contracts (requires/ensures, loop invariants + decreases) on the extracted DateRoll roll_* bodies; lemmas over the contracts",
        "level_text": "Proof: every roll_* default method of trait DateRoll, roll and the two dispatch functions are extracted from /repo on each run and verified by Verus against postconditions taken from the property (first eligible day in the direction; modified variants by (year, month); Act unchanged) for an arbitrary calendar (three uninterpreted predicates), every date, every modifier, both settlement flags, loops by invariant with termination. 'Eligible dates never move' and idempotence are lemmas over those contracts.",
        "level_note": "Assumes the chrono shim (day-number view, midnight times, Gregorian axioms, +/-Days overflow precondition), existence of an eligible day in the search direction inside chrono's range, static instead of dynamic dispatch (R7). Trusted: Verus/Z3, the extractor.",
        "design_ref": "DESIGN.md §7 C04",
    },
    "C05": {
        "technique": "Verus contracts on the extracted add_bus_days / lag / add_days / bus_date_range / cal_date_range bodies (loop invariants relate the i8 counter to a recursive business-day count); lemmas over the contracts",
        "level_text": "Proof: the bodies are extracted from /repo each run and verified for an arbitrary calendar, every start date and every i8 day count: add_bus_days returns the unique date with exactly |n| business days between it and the start (recursive count spec), then the first settlement-eligible day onward in the direction of n (forward for 0); non-business start is Err; lag follows its three-case rule; bus_date_range is exactly the ordered business days of the calendar range; add_days is shift-then-adjust. Inverse law, n=0 identity and uniqueness of the n-th business day are lemmas over the contracts. i8 counter overflow freedom is part of the obligations.",
        "level_note": "Assumes the chrono shim, and that the requested n-th business day / settlement day exists inside chrono's range. Trusted: Verus/Z3, the extractor.",
        "design_ref": "DESIGN.md §7 C05",
    },
    "C08": {
        "technique": "Verus contracts on the extracted add_months / get_roll / get_roll_by_day / get_imm / is_imm / get_eom / is_eom / is_leap_year / ndt bodies against a month-index oracle",
        "level_text": "Proof: for every start date, every i32 month offset whose target year is representable, every roll kind and day 1-31, every modifier: add_months returns roll(modifier) of the date with month index = start index + m and day = requested roll day capped at the month length (own day / n / last / first / third Wednesday); get_imm is the unique Wednesday with day 15..21; get_eom is the last day (loop with invariant and termination); is_leap_year is the Gregorian rule. The oracle is month-index arithmetic, independent of the code's abs/signum/rem_euclid carry logic; all integer overflow, unwrap and panic sites are obligations.",
        "level_note": "Assumes the chrono shim (from_ymd_opt is Some iff the civil date exists; Gregorian axioms) and specs for i32::abs/signum/rem_euclid/try_from. Trusted: Verus/Z3, the extractor.",
        "design_ref": "DESIGN.md §7 C08",
    },
    "C20": {
        "technique": "Verus: every panic!/unwrap/expect/integer operation in the extracted bodies is an obligation (R8: panic! -> requires false)",
        "level_text": "Proof (partial scope): the date arithmetic (add_days, add_bus_days, lag, roll, add_months, get_roll, get_roll_by_day, get_eom, bus_date_range, cal_date_range) has no reachable panic, failed unwrap or integer overflow for any i8 day count, any month offset whose target year is representable, roll days 1-31, any modifier and flag, any calendar.",
        "level_note": "Partial: JSON loading is not under contract (serde expansions); the three genuine defects found there and in the spline solve were repaired in /repo (fix: 9783ec0, 7e92a66, 234b13e) and their inputs are replayed on the real code on every check (bounded, single inputs). Assumes the chrono shim; preconditions are exactly: results stay in chrono's range and an eligible day exists in the search direction.",
        "design_ref": "DESIGN.md §7 C20",
    },
    "C17": {
        "technique": "Verus contracts on the extracted gradient1 / gradient2 / gradient1_manifold bodies (nested loop invariants) over the by-name view",
        "level_text": "Proof: gradient1, gradient2 and gradient1_manifold (default methods of traits Gradient1/Gradient2) are extracted each run and verified for every dual number (any stored order of names) and every requested name list: result entry i is the derivative for the i-th requested distinct name, 0 for names the number does not carry; gradient2 entry (i, j) is twice the stored half-Hessian of the name pair; manifold entry i has value = first derivative, own gradient = Hessian row, zero own Hessian. Both the shortcut path (equal name lists) and the lookup path are covered.",
        "level_note": "Assumes the R64/ndarray/IndexSet shims. A genuine defect found by this check (manifold entries for absent names had gradient ones) was repaired in /repo (fix: c67a88f).",
        "design_ref": "DESIGN.md §7 C17",
    },
    "C01": {
        "technique": "Verus postconditions (textbook AD rule per operator: value, gradient per name) on every extracted first-order operator body of dual_ops/{add,sub,mul,div,neg,pow,math_funcs}.rs",
        "level_text": "Proof: each operator body for Dual (and f64 on either side) is extracted from the impl_op*! macro / trait impl each run and verified against the rule val = f, grad[n] = f_a*grad(a)[n] + f_b*grad(b)[n] for every variable name n, every layout of the operands' variable lists (shared, equal, subset, superset, different) and all real values in the rule's domain; float operands are the same rule with a constant.",
        "level_note": "Real-number model of f64; transcendental functions uninterpreted with the derivative facts as oracle; iterator/ndarray/IndexSet shims; auto_ops forwarders regenerated.",
        "design_ref": "DESIGN.md §7 C01/C02",
    },
    "C02": {
        "technique": "Verus postconditions (second-order rule on the stored half-Hessian per name pair) on every extracted Dual2 operator body",
        "level_text": "Proof: each Dual2 operator body (add, sub, mul, div, neg, pow, exp, log, norm_cdf, inv_norm_cdf, f64 mixes) and the outer product helper fouter11_ are extracted each run and verified against hess2(r)[n,k] = f_a*hess2(a)[n,k] + f_b*hess2(b)[n,k] + (f_aa ga_n ga_k + f_ab (ga_n gb_k + ga_k gb_n) + f_bb gb_n gb_k)/2 together with the first-order rule, for all names n, k and all operand layouts.",
        "level_note": "As C01. The Hessian read back by gradient2 is 2*hess2 (C17), symmetric whenever the inputs' stored half-Hessians are.",
        "design_ref": "DESIGN.md §7 C01/C02",
    },
    "C03": {
        "technique": "Verus contracts on vars_cmp, to_new_vars (Dual, Dual2), to_union_vars, to_combined_vars, PartialEq and on every binary operator, all stated over the name->derivative view",
        "level_text": "Proof: the five-way classification is verified to be exact for all duplicate-free name sequences; re-layout by name lookup preserves value/gradient/Hessian per name; union alignment yields one shared list carrying exactly the union of names; every binary operator contract is stated on views only, so its result cannot depend on order, sharing or zero-derivative extras; == is equality of views (missing = zero).",
        "level_note": "As C01; caller-supplied `state` hints must be truthful (checked at every call site in the extracted code).",
        "design_ref": "DESIGN.md §7 C03",
    },
    "C18": {
        "technique": "Verus contracts on set_order / set_order_clone (nine-row table), every From impl and every Number operator arm; refusal copies verified against `ensures false`",
        "level_text": "Proof: raising a float attaches exactly the requested (de-duplicated) names with unit sensitivity, raising Dual to Dual2 adds a zero Hessian, lowering keeps names/value/gradient, lowering to float returns the value (set_order, set_order_clone and all From impls, bodies extracted each run). Every arm of Number +,-,*,/,%,neg,pow,exp,log,norm_cdf,inv_norm_cdf,abs,==,partial_cmp,zero,one is proved to return the contained kind's verified result; the Dual/Dual2 mixed arms are proved unreachable for unmixed operands AND, in a second verified copy, proved to be the only outcome for mixed operands (no path returns a value).",
        "level_note": "As C01; comparison trait bodies verified as free functions; Sum for Number and the minor Signed methods are uncovered (listed in the evidence).",
        "design_ref": "DESIGN.md §7 C18",
    },
    "C19": {
        "technique": "Verus contracts on partial_cmp (six positions + Number), abs, the six remainder bodies, Sum::sum, zero/one/is_zero; neutrality lemmas over the operator contracts",
        "level_text": "Proof: comparisons return the float comparison of the values; abs keeps the view for positive and negates value and every derivative for negative values; a % b equals a - trunc(a/b)*b in value, gradient and Hessian for all operand layouts and float mixes; Sum::sum is the left fold of the verified + from the empty-name zero; zero/one are constants with no variables and are neutral for + and * on views (lemmas).",
        "level_note": "As C01; trunc uninterpreted; fold specified eagerly.",
        "design_ref": "DESIGN.md §7 C19",
    },
    "C11": {
        "technique": "Verus contracts: index_left (recursive, all lengths) against the 'first node on or after, clamped' interval rule; the closed forms against their formulas; interpolated_value bodies against rule-of-two-nodes postconditions",
        "level_text": "Proof: index_left (monomorphic copy at i64, recursion verified with termination) returns exactly the clamped index of the interval whose right end is the first node >= the query for every strictly increasing key list of length >= 2; linear / log-linear / linear-zero-rate closed forms equal the property's formulas (f64 copies), with value-at-node and betweenness lemmas. CurveDF::try_new, From<Nodes> for NodesTimestamp and NodesTimestamp::sort_keys (extracted each run) store exactly the supplied (date, value) pairs re-keyed by timestamp in strictly increasing key order; lemma_node_order_irrelevant: two curves built from the same pairs supplied in any two orders store the identical node list (a key-sorted arrangement of a set of pairs is unique; re-keying preserves permutations).",
        "level_note": "Real-number model; monomorphic copies (R5); IndexMap::sort_keys / from_iter / into_iter are assumed indexmap contracts.",
        "design_ref": "DESIGN.md §7 C11",
    },
    "C12": {
        "technique": "Verus: the closed forms re-verified at Dual and Dual2 against bin1_post/bin2_post with the formula's true partial derivatives (composition of the verified operator contracts)",
        "level_text": "Proof (partial scope): CurveDF::set_ad_order (all nine arms, body extracted each run) keeps keys, their order and every node value, leaves the curve untouched when the order is unchanged, tags node i of a float curve with the i-th variable tag at unit sensitivity (zero Hessian) and keeps names on One<->Two switches; get_variable_tags (extracted each run) returns, at position i, the concatenation of the id and the decimal rendering of i, for every length; value preservation is transitive, hence an invariant of any switch history; index_value is Err without a base, 0 before the first node, else base / looked-up value; the linear rule at Dual and Dual2 returns the formula's value with gradient (1-w)*grad(y1) + w*grad(y2) and the matching half-Hessian (exact sensitivities to the two nodes used, zero to all others).",
        "level_note": "Partial: see coverage.uncovered_subclaims in the evidence for the rules / operations not yet under contract.",
        "design_ref": "DESIGN.md §7 C12",
    },
    "C14": {
        "technique": "Verus: the two recursive basis-function bodies verified equal to the Cox-de Boor / de Boor derivative recursion spec functions (termination, index bounds, usize arithmetic, non-zero divisors included); lemmas on the spec",
        "level_text": "Proof: bsplev_single_f64 and bspldnev_single_f64 (extracted each run) return exactly the value of the Cox-de Boor recursion (right-continuous pieces, zero-width spans dropped, right-end-point rule) resp. de Boor's derivative recursion, for every order k >= 1, every knot vector, every basis index with i + k < |t|, every derivative order m and every x; m >= k gives 0; no index is out of bounds, no usize operation overflows, no division by zero occurs, the recursion terminates. Lemmas on the spec functions, for every non-decreasing knot vector: every basis function is non-negative; it vanishes outside its k knot spans; the basis functions of order k sum to one for t_{k-1} <= x < t_{|t|-k} (telescoping of the recursion, lemma_partition_of_unity) and at the right end point (all vanish but the last, which is 1).",
        "level_note": "Real-number model of f64. That the de Boor recursion IS the derivative of the piecewise polynomial is the oracle (de Boor's theorem), not re-derived from limits. Trusted: Verus/Z3, extractor.",
        "design_ref": "DESIGN.md §7 C14",
    },
    "C06": {
        "technique": "Verus contracts on the extracted DateRoll impls of Cal / UnionCal / NamedCal / CalType, the four PartialEq bodies, NamedCal::try_new and parse_cals; lemmas over the contracts for order independence, name = explicit union, letter case",
        "level_text": "Proof: the bodies are extracted from /repo each run. UnionCal::is_weekday / is_holiday / is_settlement are proved equal to: in the working week of every member / a holiday of some member / a business day of every settlement calendar (true when there are none), for arbitrary member lists; lemma_union_bus turns that into the statement's \"business day exactly when a business day in every member\"; lemma_union_order gives independence of list order. The four eq bodies return true exactly when both calendars agree on business day and settlement day for every day number from 1970-01-01 to 2200-12-31 (the zip/all over the two 84371-element date ranges is proved, not run). NamedCal::try_new is proved against named_post: lower-case, split on '|', more than two parts is Err, the first part's comma pieces become the members in order and the second part's the settlement list, any unknown piece is Err; lemmas give name == explicit union date for date and case-insensitivity. Cal::new (extracted each run) stores exactly the given holidays (whatever their year) and exactly the given week-mask days, for week masks 0-6.",
        "level_note": "Strings are abstract (lower-casing and splitting uninterpreted), get_calendar_by_name is an assumed contract (C07 decides the tables behind it). Trusted: Verus/Z3, the extractor, the chrono and collection shims.",
        "design_ref": "DESIGN.md §7 C06",
    },
    "C09": {
        "engine": "verus-extract+bounded-probe",
        "technique": "Verus contracts on the extracted FXRates::try_new (rejection clauses), create_initial_edges, create_initial_fx_array and the fill-in recursion mut_arrays_remaining_elements (potential-vector invariant over an abstract ring; partial correctness); bounded probe of the real triangulation against a path-product oracle for the rest (stand-in, labelled bounded)",
        "level_text": "Other (part proof, part bounded): PROVED for all inputs - an empty quote list, a currency count different from quotes + 1 (under- or over-specified) and inconsistent settlement dates are Err; create_initial_edges marks exactly the diagonal and the quoted pairs (both orientations); create_initial_fx_array puts every quote in its cell exactly as quoted, its reciprocal in the mirrored cell, one on the diagonal and leaves everything else zero (for quotes on pairwise different currency pairs). Also PROVED (partial correctness, termination not verified): the extracted body of the fill-in recursion mut_arrays_remaining_elements keeps the edge matrix symmetric 0/1, never overwrites a populated entry (each quoted pair stays exactly as quoted), writes only values consistent with EVERY potential vector the populated entries were consistent with (a[i][j] * p_i == p_j, so every cross it produces is the product of the quotes along any path, inverted where travelled backwards, and each rate times its inverse is one), and returns Ok(true) only when every edge is populated. BOUNDED ONLY (never counted as proved) - completeness (every tree gets filled, degenerate sets of the right count are rejected), independence of quote order and base, the lifting in create_fx_array: on the real compiled code, for quote trees on 2..8 (thorough: 2..12) currencies of six shapes, every orientation for n <= 7, rotated quote orders and four base choices, every one of the n*n cross rates equals the product of the quotes along the tree path (inverted where travelled backwards), quoted pairs are returned exactly, self rates are 1, first-order sensitivities to fx_<pair> are +-cross/quote on the path and 0 elsewhere; nine degenerate quote sets (duplicate, reversed duplicate, triangle, two components, cycle plus isolated pair with the right count, settlement mismatches, empty) are rejected.",
        "level_note": "The three selection expressions of the recursion (sum_axis / zip / filter / max_by_key / itertools::combinations chains) are replaced by ASSUMED contracts (declared substitutions); termination and progress are not proved; the probe is a bounded stand-in with the stated bound. Trusted: Verus/Z3, extractor, ring axioms, the probe's oracle, rustc.",
        "design_ref": "DESIGN.md §7 C09",
    },
    "C10": {
        "technique": "Verus contracts on the extracted FXRates::try_new / rate / update / set_ad_order bodies; representation invariant fx_inv (matrix values == values of the matrix built from the stored quotes) required and ensured by every operation",
        "level_text": "Proof (history clauses): the bodies are extracted from /repo each run. update: if some given pair is not stored the result is Err and *self is unchanged; otherwise the stored quote list is the old one with each given quote written over the stored quote of the same pair (fold-index loop proved equal to a last-index spec), and the matrix IS the one built directly from that list with base currencies[0]. set_ad_order (nine arms): quotes and currency index unchanged, resulting order as requested, every entry's value unchanged (projection arms proved entry by entry through from_shape_vec / into_iter / map; rebuild arms through the builder's contract), identity arms leave the matrix untouched. rate: None iff a currency is unknown, else the value of the matrix entry at the two currency indices. Every operation requires and re-establishes fx_inv, so after ANY finite sequence of updates / refused updates / order switches the rates are those of a market built directly from the latest quotes. try_new: empty list, wrong currency count and inconsistent settlement are Err; otherwise the state is exactly (quotes, currency index in first-occurrence order with the base first, builder result at order One). Naming / lifting clause: the body of create_fx_array (extracted each run as create_fx_array_lift) lifts quote i with set_order_clone under C18's table - a plain number becomes a number of the requested order carrying exactly one variable, the tag of its own pair, at unit sensitivity, a quote that already is a dual number keeps its own variables - converts with the From<&Number> conversion of the requested order and seeds and fills the matrix of that order; the fill-in's failure is passed on as Err.",
        "level_note": "As called by the other operations the builder is an assumed deterministic function with order-independent values; its two generic callees appear in the lifted body as assumed stand-ins for the bodies proved at the abstract ring under C09; the +-cross/quote VALUES of the sensitivities are not composed into a theorem (bounded probe). Trusted: Verus/Z3, extractor, shims.",
        "design_ref": "DESIGN.md §7 C10",
    },
    "C13": {
        "technique": "Verus contracts on the extracted generic dsolve21_ / dsolve_upper21_ / dmul11_ bodies verified once over an abstract commutative ring (loop invariants: echelon form, invertible pivots, solution-set inclusion); ring and inner-product lemma library proved from the ring axioms",
        "level_text": "Proof: the generic bodies are extracted from /repo each run with T bound to an abstract commutative ring (only the ring axioms, (a/p)*p == a for invertible p, and an order key for |.| are known). For every n, every matrix and right-hand side with `regular(a)` (the contract's form of non-singular) the returned x satisfies <row_i(a), x> == b_i for every i, as an identity in the ring - for Dual/Dual2 instances that is equality of value and of every first and second derivative. Back substitution is proved for every upper-triangular system with invertible diagonal; elimination is proved to keep every solution of the current system a solution of the original one (row operations seen backwards) and to produce zeros below invertible pivots.",
        "level_note": "Assumed: ring axioms for Dual/Dual2, contracts of row_swap / el_swap / argabsmax and of the ndarray API, regular(a) <=> non-singular. Not covered: row-order independence, floating-point conditioning.",
        "design_ref": "DESIGN.md §7 C13",
    },
    "C15": {
        "technique": "Verus contracts on the extracted PPSpline::bsplmatrix / csolve / ppdnev_single bodies (coefficient type bound to an abstract module), on top of the verified contracts of fdsolve (C13) and of the B-spline basis functions (C14); interpolation lemma over the contracts",
        "level_text": "Proof (interpolation clauses): the bodies are extracted from /repo each run. bsplmatrix holds, for every site and basis function, the left_n-th derivative in the first row, the right_n-th derivative in the last row and the plain value in between (de Boor / Cox-de Boor spec functions of C14). csolve: mismatched site counts are Err and leave the spline unchanged; otherwise the stored coefficients satisfy every collocation equation exactly (row of the matrix times coefficients == datum) by fdsolve's contract. ppdnev_single is the inner product of the basis (derivative) values at x with the coefficients. Hence (lemma_spline_interpolates) the solved spline takes the datum at every interior site and its requested derivatives take the data at the two end sites - for f64, Dual and Dual2 data alike (identity in the abstract module).",
        "level_note": "Relative to `regular` of the collocation matrix (Schoenberg-Whitney not proved) and to the module axioms for Dual/Dual2. NOT covered: polynomial reproduction, sensitivities w.r.t. data and abscissa, least-squares mode. Trusted: Verus/Z3, extractor, shims.",
        "design_ref": "DESIGN.md §7 C15",
    },
    "C07": {
        "engine": "verus-compiled-checker",
        "technique": "Verus-verified generic table checker (loop invariants over all 84371 days, sorted-table membership lemma) compiled and executed on the extracted tables",
        "level_text": "Other (verified checker executed, exhaustive): for tgt, nyc, fed, ldn, stk, osl, zur every weekday 1970-2200 is in the table wired to that name iff the published rules make it a holiday; fed is nyc minus Good Friday as a relation between the two wired tables; all/bus have no holidays; for tro, tyo, syd, wlg, mum every weekday occurrence of the documented plain fixed-date and Easter-linked holidays is in the table; every documented name resolves in both maps of named/mod.rs; for the nine fixing CSVs the business days of the wired calendar over the CSV's span are exactly the publication dates. Each check_* function is proved for ANY table; the instance is decided by running the compiled verified code on the tables extracted from /repo on this run. The link from tables to behaviour is closed by an exhaustive native sweep on every run: for all 14 names the object returned by get_calendar_by_name agrees with the extracted table and week mask on every one of the 84371 days (is_holiday on Monday-Friday, is_bus_day on every day), which covers the HashMap wiring, date parsing, Cal::new and the DateRoll impl of Cal.",
        "level_note": "Not a pure SMT proof of the instance: decided by executing verified code. Rules transcribed by hand from RULES / *_script.py. A genuine defect found here (\"fed\" wired to the nyc tables) was repaired in /repo (fix: 1b136f0).",
        "design_ref": "DESIGN.md §7 C07",
    },
}
