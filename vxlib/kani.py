"""Kani harness runner.

Harnesses live in /verif/kani (crate `vx-kani`, depends on rateslib = { path = "/repo" }).  Tier K: loop-free (or with
unwinding assertions) over a stated finite domain -> complete over that domain.  Tier Kb: bounded stand-in (array sizes).
Results of SUCCESSFUL runs are cached under .cache/kani_results.json keyed by the hash of everything the verdict depends
on (harness source, /repo/Cargo.lock, the listed /repo source files): a change to any of them re-runs the harness.
"""
import hashlib
import json
import os
import re
import shutil
import subprocess
import time

ROOT = os.path.dirname(os.path.dirname(os.path.abspath(__file__)))
REPO = os.environ.get("VERIF_REPO", "/repo")
KDIR = os.path.join(ROOT, "kani")
CACHE = os.path.join(ROOT, ".cache", "kani_results.json")

HARNESSES = {
    "chrono_view_is_days_from_civil": {
        "src": "chrono_facts.rs", "tier": "K", "timeout": 900, "repo_files": [],
        "bound": "every date 1970-01-01 .. 2200-12-31 (symbolic y/m/d, loop-free)",
        "what": "shim/chrono.rs [K]: a NaiveDateTime built from (y,m,d,0,0,0) has timestamp 86400*days_from_civil, year/month/day/weekday accessors agree with the civil-date model",
    },
    "chrono_from_ymd_validity": {
        "src": "chrono_facts.rs", "tier": "K", "timeout": 600, "repo_files": [],
        "bound": "every (y in 1970..=2200, m in 0..=13, d in 0..=32)",
        "what": "shim/chrono.rs [K]: NaiveDate::from_ymd_opt is Some exactly for valid civil dates (cal_valid)",
    },
    "chrono_add_days": {
        "src": "chrono_facts.rs", "tier": "K", "timeout": 1500, "repo_files": [],
        "bound": "every date 1970..2200, every step 0..=31 days",
        "what": "shim/chrono.rs [K]: `t + Days::new(k)` has day number + k",
    },
    "chrono_sub_days": {
        "src": "chrono_facts.rs", "tier": "K", "timeout": 1500, "repo_files": [],
        "bound": "every date 1970..2200, every step 0..=31 days",
        "what": "shim/chrono.rs [K]: `t - Days::new(k)` has day number - k",
    },
    "chrono_weekday_try_from_u8": {
        "src": "chrono_weekday.rs", "tier": "K", "timeout": 600, "repo_files": [],
        "bound": "every u8 (loop-free)",
        "what": "contracts/calendars.vx [K]: chrono's Weekday::try_from(u8) is Ok(Mon..Sun) for 0..=6 and Err otherwise (the week-mask conversion of Cal::new)",
    },
    "std_i32_abs_signum": {
        "src": "int_facts.rs", "tier": "K", "timeout": 600, "repo_files": [],
        "bound": "every i32 (loop-free)",
        "what": "shim/intspecs.rs [K]: i32::abs (x > MIN) and i32::signum as assumed by the Verus units",
    },
    "std_i32_rem_euclid_12": {
        "src": "int_facts.rs", "tier": "K", "timeout": 600, "repo_files": [],
        "bound": "every i32, divisor 12 (the only divisor used by the code under contract)",
        "what": "shim/intspecs.rs [K]: i32::rem_euclid(12) is the mathematical remainder in [0, 12)",
    },
    "std_i8_unsigned_abs": {
        "src": "int_facts.rs", "tier": "K", "timeout": 600, "repo_files": [],
        "bound": "every i8 (loop-free)",
        "what": "shim/intspecs.rs [K]: i8::unsigned_abs is |x| (including -128 -> 128)",
    },
    "std_i32_try_from_u32": {
        "src": "int_facts.rs", "tier": "K", "timeout": 600, "repo_files": [],
        "bound": "every u32 (loop-free)",
        "what": "shim/intspecs.rs [K]: i32::try_from(u32) is Ok(x) up to i32::MAX and Err above",
    },
    "rateslib_get_imm_is_third_wednesday": {
        "src": "month_facts.rs", "tier": "K", "timeout": 900, "repo_files": ["rust/calendars/dateroll.rs", "rust/calendars/calendar.rs"],
        "bound": "every (year, month) of 1970-2200 (loop-free)",
        "what": "C08 on the real compiled code: get_imm(y, m) is a Wednesday with day 15..=21 of that month",
    },
    "rateslib_is_imm_exactly_third_wednesday": {
        "src": "month_facts.rs", "tier": "K", "timeout": 900, "repo_files": ["rust/calendars/dateroll.rs", "rust/calendars/calendar.rs"],
        "bound": "every date of 1970-2200 (loop-free)",
        "what": "C08 on the real compiled code: is_imm holds exactly on the third Wednesday",
    },
    "rateslib_get_eom_is_last_day": {
        "src": "month_facts.rs", "tier": "K", "timeout": 900, "repo_files": ["rust/calendars/dateroll.rs", "rust/calendars/calendar.rs"],
        "bound": "every (year, month) of 1970-2200; the search loop (at most 3 steps) unwound 5 times with unwinding assertions",
        "what": "C08 on the real compiled code: get_eom(y, m) is the last day of the month",
    },
    "rateslib_is_eom_exactly_last_day": {
        "src": "month_facts.rs", "tier": "K", "timeout": 900, "repo_files": ["rust/calendars/dateroll.rs", "rust/calendars/calendar.rs"],
        "bound": "every date of 1970-2200; unwind 5 with unwinding assertions",
        "what": "C08 on the real compiled code: is_eom holds exactly on the last day of the month",
    },
    "rateslib_is_leap_year_gregorian": {
        "src": "month_facts.rs", "tier": "K", "timeout": 600, "repo_files": ["rust/calendars/dateroll.rs"],
        "bound": "every year 1970-2200 (loop-free)",
        "what": "C08 on the real compiled code: is_leap_year is the Gregorian rule",
    },
    "row_swap_swaps_exactly_two_rows": {
        "src": "linalg_swaps.rs", "tier": "Kb", "timeout": 1200, "repo_files": ["rust/dual/linalg/linalg_dual.rs", "rust/dual/linalg/mod.rs"],
        "bound": "3x3 arrays of arbitrary i32, every j < k < 3",
        "what": "assumed contract `swapped` of row_swap (contracts/linalg*.vx) on the real code",
    },
    "el_swap_swaps_exactly_two_elements": {
        "src": "linalg_swaps.rs", "tier": "Kb", "timeout": 1200, "repo_files": ["rust/dual/linalg/linalg_dual.rs", "rust/dual/linalg/mod.rs"],
        "bound": "length-4 arrays of arbitrary i32, every j < k < 4",
        "what": "assumed contract `swapped1` of el_swap (contracts/linalg*.vx) on the real code",
    },
    "argabsmax_is_an_index_of_largest_abs": {
        "src": "linalg_swaps.rs", "tier": "Kb", "timeout": 1200, "repo_files": ["rust/dual/linalg/linalg_dual.rs", "rust/dual/linalg/mod.rs"],
        "bound": "arrays of 1..4 arbitrary i16 (not MIN)",
        "what": "assumed contract of argabsmax (an index of an element of largest absolute value) on the real code",
    },
}


def _sha(*paths):
    h = hashlib.sha256()
    for p in paths:
        try:
            with open(p, "rb") as f:
                h.update(f.read())
        except OSError:
            h.update(b"<missing>")
        h.update(b"\0")
    return h.hexdigest()[:24]


def _key(name):
    spec = HARNESSES[name]
    paths = [os.path.join(KDIR, "src", spec["src"]), os.path.join(KDIR, "src", "lib.rs"), os.path.join(KDIR, "Cargo.toml"), os.path.join(REPO, "Cargo.lock")]
    paths += [os.path.join(REPO, f) for f in spec["repo_files"]]
    return name + ":" + _sha(*paths)


def _load_cache():
    try:
        return json.load(open(CACHE))
    except Exception:  # noqa
        return {}


def _save_cache(c):
    os.makedirs(os.path.dirname(CACHE), exist_ok=True)
    # atomic, and merged with what another check process may have stored meanwhile (checks may run concurrently)
    cur = _load_cache()
    cur.update(c)
    tmp = CACHE + f".{os.getpid()}.tmp"
    with open(tmp, "w") as f:
        json.dump(cur, f, indent=1)
    os.replace(tmp, CACHE)


def _env():
    e = dict(os.environ)
    e["CARGO_NET_OFFLINE"] = "true"
    return e


def setup():
    """Copies /repo/Cargo.lock (pins the dependency versions the real crate uses) and pre-builds nothing: the first
    harness run compiles rateslib under Kani (~1 min)."""
    if not os.path.isdir(KDIR):
        return 0
    try:
        shutil.copyfile(os.path.join(REPO, "Cargo.lock"), os.path.join(KDIR, "Cargo.lock"))
    except OSError:
        return 1
    return 0


def _run_one(name, extra=None):
    spec = HARNESSES[name]
    cmd = ["cargo", "kani", "--harness", name] + (extra or [])
    t0 = time.time()
    try:
        p = subprocess.run(cmd, cwd=KDIR, env=_env(), capture_output=True, text=True, timeout=spec["timeout"])
        out = p.stdout + "\n" + p.stderr
        rc = p.returncode
    except subprocess.TimeoutExpired as e:
        subprocess.run(["pkill", "-x", "cbmc"])
        return {"status": "undecided", "reason": f"timeout after {spec['timeout']} s", "seconds": time.time() - t0, "cmd": " ".join(cmd), "out": str(e)[-400:]}
    secs = time.time() - t0
    m = re.search(r"Verification Time: ([0-9.]+)s", out)
    vt = float(m.group(1)) if m else secs
    if "VERIFICATION:- SUCCESSFUL" in out and re.search(r"\*\* 0 of \d+ failed", out):
        nchecks = int(re.search(r"\*\* 0 of (\d+) failed", out).group(1))
        if nchecks == 0:
            return {"status": "undecided", "reason": "harness generated zero checks (vacuous)", "seconds": vt, "cmd": " ".join(cmd), "out": out[-600:]}
        return {"status": "discharged", "seconds": vt, "checks": nchecks, "cmd": " ".join(cmd), "out": out[-300:]}
    if "VERIFICATION:- FAILED" in out:
        failed = re.findall(r"Failed Checks: ([^\n]*)", out)
        # unwinding / unsupported-construct failures are tool limits, not property violations
        if failed and all(("unwinding assertion" in f or "not currently supported" in f or "unsupported" in f.lower()) for f in failed):
            return {"status": "undecided", "reason": "tool limit: " + "; ".join(failed[:3]), "seconds": vt, "cmd": " ".join(cmd), "out": out[-800:]}
        return {"status": "failed", "failed_checks": "; ".join(failed[:5]) or "see output", "seconds": vt, "cmd": " ".join(cmd), "out": out[-1500:]}
    return {"status": "undecided", "reason": f"kani gave no verdict (rc={rc})", "seconds": secs, "cmd": " ".join(cmd), "out": out[-1200:]}


def run_harnesses(pid, names, tier):
    res = {"harnesses": [], "cmds": [], "trusted": [], "guards": {}}
    if setup() != 0:
        res["harnesses"].append({"name": "setup", "tier": "K", "status": "undecided", "reason": "cannot copy /repo/Cargo.lock"})
        return res
    if isinstance(names, dict):
        names = names.get(tier, names.get("quick", []))
    cache = _load_cache()
    for name in names:
        spec = HARNESSES[name]
        key = _key(name)
        h = {"name": name, "tier": spec["tier"], "bound": spec["bound"], "what": spec["what"], "where": f"kani/src/{spec['src']}"}
        if key in cache and cache[key].get("status") == "discharged":
            h.update({"status": "discharged", "seconds": cache[key].get("seconds", 0), "cached": True, "checks": cache[key].get("checks")})
            res["cmds"].append(cache[key].get("cmd", "") + "   # cached verdict (inputs unchanged)")
        else:
            r = _run_one(name)
            h.update({k: v for k, v in r.items() if k not in ("out", "cmd")})
            h["output_tail"] = r.get("out", "")
            res["cmds"].append(r.get("cmd", ""))
            if r["status"] == "discharged":
                cache[key] = {"status": "discharged", "seconds": r["seconds"], "checks": r.get("checks"), "cmd": r.get("cmd"), "at": time.strftime("%Y-%m-%dT%H:%M:%S")}
                _save_cache(cache)
            elif r["status"] == "failed":
                # second run: ask Kani for concrete values of the symbolic inputs
                r2 = _run_one(name, ["-Z", "concrete-playback", "--concrete-playback=print"])
                m = re.search(r"(#\[test\][\s\S]*?\n\}\n)", r2.get("out", "") if r2.get("out") else "")
                full = r2.get("out", "")
                h["counterexample"] = {"harness": name, "concrete_playback": (m.group(1) if m else full[-1500:]), "domain": spec["bound"]}
        res["guards"][f"kani {name}: at least one check generated"] = bool(h.get("checks", 1))
        res["harnesses"].append(h)
    res["trusted"].append("Kani 0.68 / CBMC 6.11 (bit-precise model of the compiled MIR; `kani::any()` ranges as stated per harness)")
    return res
