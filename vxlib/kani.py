"""Kani harness runner (filled in below)."""
import os

ROOT = os.path.dirname(os.path.dirname(os.path.abspath(__file__)))


def setup():
    return 0


def run_harnesses(pid, harnesses, tier):
    return {"harnesses": [], "cmds": [], "trusted": [], "guards": {}}
