//! Probe search for the FX market (C09 / C10): real FXRates against oracles written from the property text: cross rates
//! are path products on the quote tree, degenerate quote sets are rejected, sensitivities to fx_<pair> are +-cross/quote
//! on the path and 0 elsewhere, and any history of updates / refused updates / order switches ends in the state built
//! directly from the latest quotes.  Replay aid / bounded stand-in only.
use crate::report;
use rateslib::dual::{ADOrder, Dual, Gradient1, Number};
use rateslib::fx::rates::{Ccy, FXRate, FXRates};

const CCYS: [&str; 13] = ["usd", "eur", "gbp", "jpy", "cad", "aud", "nok", "sek", "chf", "nzd", "inr", "mxn", "zar"];

fn ccy(s: &str) -> Ccy {
    Ccy::try_new(s).unwrap()
}
fn q(a: &str, b: &str, v: f64) -> FXRate {
    FXRate::try_new(a, b, Number::F64(v), None).unwrap()
}
fn val(n: &Number) -> f64 {
    f64::from(n)
}
fn close(a: f64, b: f64) -> bool {
    (a - b).abs() <= 1e-9 * (1.0 + a.abs().max(b.abs()))
}

/// tree shapes on n currencies as parent arrays (node i>0 attached to parent[i] < i), each edge with an orientation flag
fn shapes(n: usize) -> Vec<Vec<usize>> {
    let mut out = vec![];
    out.push((0..n).map(|i| if i == 0 { 0 } else { i - 1 }).collect()); // chain
    out.push(vec![0; n]); // star
    out.push((0..n).map(|i| if i == 0 { 0 } else { (i - 1) / 2 }).collect()); // binary tree
    out.push((0..n).map(|i| if i < 2 { 0 } else { i - 2 }).collect()); // two interleaved chains
    out.push((0..n).map(|i| if i == 0 { 0 } else { (i * 7 + 3) % i }).collect()); // irregular
    out.push((0..n).map(|i| if i == 0 { 0 } else if i % 3 == 0 { 0 } else { i - 1 }).collect()); // caterpillar
    out
}

struct Market {
    quotes: Vec<(usize, usize, f64)>, // (lhs index, rhs index, rate) meaning 1 lhs = rate rhs
    n: usize,
}

fn market(n: usize, parent: &[usize], flip: usize, rot: usize) -> Market {
    let mut quotes = vec![];
    for i in 1..n {
        let p = parent[i];
        let rate = [1.08, 110.0, 0.0125, 7.5, 0.64, 1350.0][(i + p) % 6] * (1.0 + 0.01 * i as f64);
        if (flip >> (i - 1)) & 1 == 1 { quotes.push((i, p, rate)) } else { quotes.push((p, i, rate)) }
    }
    let k = quotes.len();
    quotes.rotate_left(rot % k.max(1));
    Market { quotes, n }
}

fn build(m: &Market, base: Option<usize>) -> Result<FXRates, ()> {
    let v: Vec<FXRate> = m.quotes.iter().map(|(a, b, r)| q(CCYS[*a], CCYS[*b], *r)).collect();
    FXRates::try_new(v, base.map(|b| ccy(CCYS[b]))).map_err(|_| ())
}

/// path product from i to j on the quote tree, and for each quote +1 / -1 / 0 (travelled forwards / backwards / not at all)
fn oracle(m: &Market, i: usize, j: usize) -> (f64, Vec<i32>) {
    // BFS from i
    let mut prev: Vec<Option<(usize, usize, i32)>> = vec![None; m.n]; // (previous node, quote index, direction)
    let mut seen = vec![false; m.n];
    seen[i] = true;
    let mut queue = vec![i];
    while let Some(u) = queue.pop() {
        for (k, (a, b, _)) in m.quotes.iter().enumerate() {
            if *a == u && !seen[*b] { seen[*b] = true; prev[*b] = Some((u, k, 1)); queue.push(*b); }
            if *b == u && !seen[*a] { seen[*a] = true; prev[*a] = Some((u, k, -1)); queue.push(*a); }
        }
    }
    let mut dirs = vec![0; m.quotes.len()];
    let mut x = 1.0;
    let mut cur = j;
    while cur != i {
        let (p, k, d) = prev[cur].unwrap();
        dirs[k] = d;
        if d == 1 { x *= m.quotes[k].2 } else { x /= m.quotes[k].2 }
        cur = p;
    }
    (x, dirs)
}

fn check_market(func: &str, m: &Market, fxr: &FXRates, what: &str, with_grad: bool) -> bool {
    crate::CASES.fetch_add(1, std::sync::atomic::Ordering::Relaxed);
    crate::EVALS.fetch_add(m.n * m.n * (if with_grad { 1 + m.quotes.len() } else { 1 }), std::sync::atomic::Ordering::Relaxed);
    {
        let mut s = crate::SAMPLE.lock().unwrap();
        if s.is_empty() || (m.n == 5 && s.len() < 60) {
            *s = what.to_string();
        }
    }
    for i in 0..m.n {
        for j in 0..m.n {
            let (exp, dirs) = oracle(m, i, j);
            let got = match fxr.rate(&ccy(CCYS[i]), &ccy(CCYS[j])) {
                Some(x) => x,
                None => {
                    report("probe", func, &format!("{}: rate({}, {})", what, CCYS[i], CCYS[j]), "None", &format!("{}", exp), false);
                    return true;
                }
            };
            if !close(val(&got), exp) {
                report("probe", func, &format!("{}: rate({}, {})", what, CCYS[i], CCYS[j]), &format!("{}", val(&got)), &format!("{}", exp), false);
                return true;
            }
            if with_grad {
                if let Number::Dual(d) = &got {
                    for (k, (a, b, r)) in m.quotes.iter().enumerate() {
                        let name = format!("fx_{}{}", CCYS[*a], CCYS[*b]);
                        let g = d.gradient1(vec![name.clone()])[0];
                        let e = dirs[k] as f64 * exp / r;
                        if !close(g, e) {
                            report("probe", func, &format!("{}: d rate({}, {}) / d {}", what, CCYS[i], CCYS[j], name), &format!("{}", g), &format!("{}", e), false);
                            return true;
                        }
                    }
                }
            }
        }
    }
    for (a, b, r) in &m.quotes {
        let got = fxr.rate(&ccy(CCYS[*a]), &ccy(CCYS[*b])).map(|x| val(&x));
        if got != Some(*r) {
            report("probe", func, &format!("{}: quoted pair {}{} returned exactly as quoted", what, CCYS[*a], CCYS[*b]), &format!("{:?}", got), &format!("{}", r), false);
            return true;
        }
    }
    false
}

fn show(m: &Market) -> String {
    m.quotes.iter().map(|(a, b, r)| format!("{}{}={}", CCYS[*a], CCYS[*b], r)).collect::<Vec<_>>().join(",")
}

fn probe_build(func: &str) -> bool {
    let nmax = if std::env::var("VERIF_TIER").map(|t| t == "thorough").unwrap_or(false) { 12usize } else { 8usize };
    for n in 2..=nmax {
        for parent in shapes(n) {
            let all_flips: Vec<usize> = if n <= 7 { (0..(1usize << (n - 1))).collect() } else { vec![0usize, (1 << (n - 1)) - 1, 0b10101010101 & ((1 << (n - 1)) - 1), 0b01100110011 & ((1 << (n - 1)) - 1), 0b00011100011 & ((1 << (n - 1)) - 1)] };
            for flip in all_flips {
                for rot in 0..(n - 1).min(4) {
                    let m = market(n, &parent, flip, rot);
                    for base in [None, Some(0), Some(n - 1), Some(n / 2)] {
                        match build(&m, base) {
                            Err(_) => {
                                report("probe", func, &format!("FXRates::try_new([{}], base={:?})", show(&m), base.map(|b| CCYS[b])), "Err", "Ok (the quotes form a tree)", false);
                                return true;
                            }
                            Ok(fxr) => {
                                if check_market(func, &m, &fxr, &format!("FXRates::try_new([{}], base={:?})", show(&m), base.map(|b| CCYS[b])), true) {
                                    return true;
                                }
                            }
                        }
                    }
                }
            }
        }
    }
    // rejected inputs
    let bad: Vec<(&str, Vec<FXRate>)> = vec![
        ("empty", vec![]),
        ("same pair twice", vec![q("eur", "usd", 1.1), q("eur", "usd", 1.2)]),
        ("pair and its reverse", vec![q("eur", "usd", 1.1), q("usd", "eur", 0.9)]),
        ("triangle (over-specified)", vec![q("eur", "usd", 1.1), q("usd", "jpy", 110.0), q("eur", "jpy", 120.0)]),
        ("two components (under-specified)", vec![q("eur", "usd", 1.1), q("gbp", "jpy", 150.0)]),
        ("cycle plus two isolated pairs", vec![q("eur", "usd", 1.1), q("usd", "jpy", 110.0), q("eur", "jpy", 120.0), q("cad", "aud", 1.1), q("nok", "gbp", 0.08)]),
        ("cycle plus one isolated pair (5 currencies, 4 quotes: the count is right, not a tree)", vec![q("eur", "usd", 1.1), q("usd", "jpy", 110.0), q("eur", "jpy", 120.0), q("cad", "aud", 1.1)]),
        ("4-cycle plus isolated pair (6 currencies, 5 quotes: the count is right, not a tree)", vec![q("eur", "usd", 1.1), q("usd", "jpy", 110.0), q("jpy", "gbp", 0.006), q("gbp", "eur", 1.2), q("cad", "aud", 1.1)]),
        ("two components that are trees plus a doubled pair reversed (count right)", vec![q("eur", "usd", 1.1), q("usd", "eur", 0.9), q("cad", "aud", 1.1), q("aud", "nzd", 1.1)]),
        ("inconsistent settlement", vec![
            FXRate::try_new("eur", "usd", Number::F64(1.1), Some(rateslib::calendars::ndt(2004, 1, 1))).unwrap(),
            FXRate::try_new("usd", "jpy", Number::F64(110.0), Some(rateslib::calendars::ndt(2004, 1, 2))).unwrap(),
        ]),
        ("settlement missing on the first quote only", vec![
            q("eur", "usd", 1.1),
            FXRate::try_new("usd", "jpy", Number::F64(110.0), Some(rateslib::calendars::ndt(2004, 1, 1))).unwrap(),
        ]),
        ("settlement on one quote only", vec![
            FXRate::try_new("eur", "usd", Number::F64(1.1), Some(rateslib::calendars::ndt(2004, 1, 1))).unwrap(),
            q("usd", "jpy", 110.0),
        ]),
    ];
    for (what, v) in bad {
        // with the default base, with a base among the quoted currencies, and with a base no quote mentions: an error each time
        for base in [None, Some("usd"), Some("zar")] {
            // announced first: if the real code brings the process down (unbounded recursion), the last announcement names the input
            println!("# trying FXRates::try_new on a degenerate quote set: {} (base {:?})", what, base);
            use std::io::Write;
            let _ = std::io::stdout().flush();
            crate::CASES.fetch_add(1, std::sync::atomic::Ordering::Relaxed);
            let vv = v.clone();
            let r = std::panic::catch_unwind(std::panic::AssertUnwindSafe(|| FXRates::try_new(vv, base.map(ccy)).is_ok()));
            match r {
                Ok(false) => {}
                Ok(true) => {
                    report("probe", func, &format!("FXRates::try_new on a degenerate quote set: {} (base {:?})", what, base), "Ok", "Err", false);
                    return true;
                }
                Err(_) => {
                    report("probe", func, &format!("FXRates::try_new on a degenerate quote set: {} (base {:?})", what, base), "PANIC", "Err", false);
                    return true;
                }
            }
        }
    }
    false
}

fn probe_history(func: &str) -> bool {
    for n in 2..=5usize {
        for parent in shapes(n) {
            let mut m = market(n, &parent, 0b0110 & ((1 << (n - 1)) - 1), 1);
            let mut fxr = match build(&m, Some(0)) { Ok(f) => f, Err(_) => return false };
            let what0 = format!("market [{}]", show(&m));
            let mut hist: Vec<String> = vec![];
            for step in 0..10usize {
                match step % 5 {
                    0 | 3 => {
                        // valid update of one or two quotes
                        let k = step % m.quotes.len();
                        let (a, b, r) = m.quotes[k];
                        let nr = r * (1.0 + 0.1 * (step as f64 + 1.0));
                        let mut ups = vec![q(CCYS[a], CCYS[b], nr)];
                        m.quotes[k].2 = nr;
                        if m.quotes.len() > 1 && step % 2 == 0 {
                            let k2 = (k + 1) % m.quotes.len();
                            let (a2, b2, r2) = m.quotes[k2];
                            ups.push(q(CCYS[a2], CCYS[b2], r2 * 0.5));
                            m.quotes[k2].2 = r2 * 0.5;
                        }
                        hist.push(format!("update({}{}={}{})", CCYS[a], CCYS[b], nr, if ups.len() > 1 { " and the next stored pair halved" } else { "" }));
                        if fxr.update(ups).is_err() {
                            report("probe", func, &format!("{}; history {:?}: update of stored pairs", what0, hist), "Err", "Ok", false);
                            return true;
                        }
                    }
                    1 => {
                        // refused updates: reversed pair, unquoted cross, unknown currency
                        let (a, b, _) = m.quotes[0];
                        let mut bads = vec![("reversed pair", q(CCYS[b], CCYS[a], 2.0)), ("unknown currency", q(CCYS[a], "zar", 2.0))];
                        if n >= 3 {
                            // two currencies that are both in the market but not quoted against each other
                            'outer: for x in 0..n {
                                for y in 0..n {
                                    if x != y && !m.quotes.iter().any(|(a, b, _)| (*a == x && *b == y) || (*a == y && *b == x)) {
                                        bads.push(("unquoted cross of two known currencies", q(CCYS[x], CCYS[y], 3.0)));
                                        break 'outer;
                                    }
                                }
                            }
                        }
                        for (why, bq) in bads {
                            let before = fxr.clone();
                            let r = fxr.update(vec![bq]);
                            hist.push(format!("update({}) [must be refused]", why));
                            if r.is_ok() {
                                report("probe", func, &format!("{}; history {:?}: update naming a pair that is not stored ({})", what0, hist, why), "Ok", "Err, nothing changed", false);
                                return true;
                            }
                            if fxr != before {
                                report("probe", func, &format!("{}; history {:?}: refused update ({}) changed the object", what0, hist, why), "changed", "unchanged", false);
                                return true;
                            }
                        }
                    }
                    2 => {
                        for o in [ADOrder::Zero, ADOrder::One, ADOrder::Two, ADOrder::Zero, ADOrder::Two, ADOrder::One, ADOrder::Zero, ADOrder::Zero, ADOrder::One] {
                            hist.push(format!("set_ad_order({:?})", o));
                            if fxr.set_ad_order(o).is_err() {
                                report("probe", func, &format!("{}; history {:?}", what0, hist), "Err", "Ok", false);
                                return true;
                            }
                            let got = fxr.rate(&ccy(CCYS[0]), &ccy(CCYS[1])).unwrap();
                            let ok = matches!((&got, o), (Number::F64(_), ADOrder::Zero) | (Number::Dual(_), ADOrder::One) | (Number::Dual2(_), ADOrder::Two));
                            if !ok {
                                report("probe", func, &format!("{}; history {:?}: derivative order of the returned rate", what0, hist), "a different order", &format!("{:?}", o), false);
                                return true;
                            }
                            if check_market(func, &m, &fxr, &format!("{}; history {:?}", what0, hist), false) {
                                return true;
                            }
                        }
                    }
                    _ => {
                        hist.push("set_ad_order(Two)".into());
                        let _ = fxr.set_ad_order(ADOrder::Two);
                    }
                }
                if check_market(func, &m, &fxr, &format!("{}; history {:?}", what0, hist), false) {
                    return true;
                }
            }
            // final: same rates as a market built directly from the latest quotes
            let _ = fxr.set_ad_order(ADOrder::One);
            let direct = build(&m, Some(0)).unwrap();
            for i in 0..n {
                for j in 0..n {
                    let a = fxr.rate(&ccy(CCYS[i]), &ccy(CCYS[j])).map(|x| val(&x));
                    let b = direct.rate(&ccy(CCYS[i]), &ccy(CCYS[j])).map(|x| val(&x));
                    if a != b {
                        report("probe", func, &format!("{}; history {:?}: rate({}, {}) vs a market built directly from the latest quotes", what0, hist, CCYS[i], CCYS[j]), &format!("{:?}", a), &format!("{:?}", b), false);
                        return true;
                    }
                }
            }
        }
    }
    false
}

/// quotes that already are dual numbers keep their own variables: a market whose k-th quote is supplied as
/// Dual / Dual2 carrying the user variable "spot<k>" (sensitivity 1) reports d cross / d spot<k> = +-cross/quote on the path,
/// nothing under fx_<pair k>, and the plain quotes keep their fx_<pair> names -- at first and second order, also after an
/// update / order round trip
fn probe_own_vars(func: &str) -> bool {
    use rateslib::dual::Dual2;
    for n in 2..=5usize {
        for parent in shapes(n) {
            let m = market(n, &parent, 0b0101 & ((1 << (n - 1)) - 1), 0);
            for second in [false, true] {
                for mask in 1..(1usize << (n - 1)) {
                    // quotes in `mask` are supplied as dual numbers
                    let v: Vec<FXRate> = m.quotes.iter().enumerate().map(|(k, (a, b, r))| {
                        let num = if (mask >> k) & 1 == 1 {
                            if second { Number::Dual2(Dual2::new(*r, vec![format!("spot{}", k)])) } else { Number::Dual(Dual::new(*r, vec![format!("spot{}", k)])) }
                        } else { Number::F64(*r) };
                        FXRate::try_new(CCYS[*a], CCYS[*b], num, None).unwrap()
                    }).collect();
                    let what = format!("FXRates::try_new([{}]) with quotes {:?} supplied as {} carrying variables spot<k>", show(&m), (0..n - 1).filter(|k| (mask >> k) & 1 == 1).collect::<Vec<_>>(), if second { "Dual2" } else { "Dual" });
                    let mut fxr = match std::panic::catch_unwind(std::panic::AssertUnwindSafe(|| FXRates::try_new(v, None))) {
                        Ok(Ok(f)) => f,
                        Ok(Err(_)) => { report("probe", func, &what, "Err", "Ok", false); return true; }
                        Err(_) => { report("probe", func, &what, "PANIC", "Ok", false); return true; }
                    };
                    for round in 0..3 {
                        if round == 1 { if fxr.set_ad_order(ADOrder::Two).is_err() { continue; } }
                        if round == 2 { if fxr.set_ad_order(ADOrder::One).is_err() { continue; } }
                        crate::CASES.fetch_add(1, std::sync::atomic::Ordering::Relaxed);
                        for i in 0..n {
                            for j in 0..n {
                                let (exp, dirs) = oracle(&m, i, j);
                                let got = match fxr.rate(&ccy(CCYS[i]), &ccy(CCYS[j])) { Some(x) => x, None => { report("probe", func, &format!("{}: rate({}, {})", what, CCYS[i], CCYS[j]), "None", &format!("{}", exp), false); return true; } };
                                if !close(val(&got), exp) {
                                    report("probe", func, &format!("{}: rate({}, {})", what, CCYS[i], CCYS[j]), &format!("{}", val(&got)), &format!("{}", exp), false);
                                    return true;
                                }
                                for (k, (a, b, r)) in m.quotes.iter().enumerate() {
                                    let own = (mask >> k) & 1 == 1;
                                    let fxname = format!("fx_{}{}", CCYS[*a], CCYS[*b]);
                                    let spot = format!("spot{}", k);
                                    let names = vec![fxname.clone(), spot.clone()];
                                    let g: Vec<f64> = match &got {
                                        Number::Dual(d) => d.gradient1(names.clone()).to_vec(),
                                        Number::Dual2(d) => d.gradient1(names.clone()).to_vec(),
                                        Number::F64(_) => continue,
                                    };
                                    let e = dirs[k] as f64 * exp / r;
                                    let (e_fx, e_spot) = if own { (0.0, e) } else { (e, 0.0) };
                                    if !close(g[0], e_fx) || !close(g[1], e_spot) {
                                        report("probe", func, &format!("{} (after {} order switches): (d rate({}, {}) / d {}, d / d {})", what, round, CCYS[i], CCYS[j], fxname, spot), &format!("({}, {})", g[0], g[1]), &format!("({}, {})", e_fx, e_spot), false);
                                        return true;
                                    }
                                }
                            }
                        }
                    }
                }
            }
        }
    }
    false
}

/// load-time reconstruction: a market built with every choice of base (and the default), written to JSON and loaded again, is the
/// market that `FXRates::try_new(<the quotes of the document>, Some(<first currency of the document>))` builds -- same quotes, same
/// currency order (base first), same cross rates -- and it re-serialises to a document with the same currencies and pairs.
/// (The quotes are compared as the document's parser delivers them: float text conversion is serde_json's business, see C16.)
fn probe_roundtrip(func: &str) -> bool {
    use rateslib::json::JSON;
    for n in 2..=5usize {
        for parent in shapes(n) {
            for rot in 0..(n - 1) {
                let m = market(n, &parent, 0b1010 & ((1 << (n - 1)) - 1), rot);
                for base in std::iter::once(None).chain((0..n).map(Some)) {
                    let what = format!("FXRates::try_new([{}], base={:?}) -> to_json -> from_json", show(&m), base.map(|b| CCYS[b]));
                    let fxr = match build(&m, base) { Ok(f) => f, Err(_) => { report("probe", func, &what, "Err at construction", "Ok", false); return true; } };
                    crate::CASES.fetch_add(1, std::sync::atomic::Ordering::Relaxed);
                    let doc = match fxr.to_json() { Ok(d) => d, Err(_) => { report("probe", func, &what, "to_json failed", "a document", false); return true; } };
                    let back = match std::panic::catch_unwind(std::panic::AssertUnwindSafe(|| FXRates::from_json(&doc))) {
                        Ok(Ok(b)) => b,
                        Ok(Err(_)) => { report("probe", func, &what, "Err on loading", "the market that was saved", false); return true; }
                        Err(_) => { report("probe", func, &what, "PANIC on loading", "the market that was saved", false); return true; }
                    };
                    let v: serde_json::Value = serde_json::from_str(&doc).unwrap();
                    let quotes: Vec<FXRate> = serde_json::from_value(v["fx_rates"].clone()).unwrap();
                    let first: Ccy = serde_json::from_value(v["currencies"][0].clone()).unwrap();
                    let expect = match FXRates::try_new(quotes, Some(first)) { Ok(e) => e, Err(_) => { report("probe", func, &what, "the document's own quotes and first currency are refused by try_new", "Ok", false); return true; } };
                    if back != expect {
                        report("probe", func, &what, &format!("a market that re-serialises as {}", back.to_json().unwrap_or_default()), &format!("FXRates::try_new(<quotes of the document>, Some({})) for the document {}", v["currencies"][0], doc), false);
                        return true;
                    }
                    // the saved market itself had the same currency order and pairs
                    let v2: serde_json::Value = serde_json::from_str(&back.to_json().unwrap_or_default()).unwrap_or_default();
                    if v2["currencies"] != v["currencies"] {
                        report("probe", func, &format!("{}: currency order of the loaded market", what), &v2["currencies"].to_string(), &v["currencies"].to_string(), false);
                        return true;
                    }
                    for i in 0..n {
                        for j in 0..n {
                            let a = fxr.rate(&ccy(CCYS[i]), &ccy(CCYS[j])).map(|x| val(&x));
                            let b = back.rate(&ccy(CCYS[i]), &ccy(CCYS[j])).map(|x| val(&x));
                            let same = match (a, b) { (Some(x), Some(y)) => close(x, y), (None, None) => true, _ => false };
                            if !same {
                                report("probe", func, &format!("{}: rate({}, {})", what, CCYS[i], CCYS[j]), &format!("{:?}", b), &format!("{:?}", a), false);
                                return true;
                            }
                        }
                    }
                }
            }
        }
    }
    false
}

pub fn probe(func: &str) -> bool {
    std::panic::set_hook(Box::new(|_| {}));
    match func {
        "try_from" | "from_json" => probe_roundtrip(func),
        "update" | "set_ad_order" | "rate" => probe_history(func) || probe_own_vars(func) || probe_build(func),
        "try_new" | "create_fx_array" | "create_fx_array_lift" | "mut_arrays_remaining_elements" | "create_initial_fx_array" | "create_initial_edges" => probe_own_vars(func) || probe_build(func) || probe_history(func),
        _ => false,
    }
}
