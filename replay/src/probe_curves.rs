//! Probe search for the curve functions (C11 / C12): real CurveDF look-ups against closed forms evaluated on the
//! two nodes selected by a brute-force "first node on or after" search; derivative-order switch sequences.
//! Replay aid / bounded stand-in only.
use crate::report;
use chrono::{Days, NaiveDateTime};
use indexmap::IndexMap;
use rateslib::calendars::{ndt, Convention, Modifier, NamedCal};
use rateslib::curves::{
    CurveDF, CurveInterpolation, FlatBackwardInterpolator, FlatForwardInterpolator, LinearInterpolator, LinearZeroRateInterpolator,
    LogLinearInterpolator, Nodes,
};
use rateslib::dual::{ADOrder, Dual, Gradient1, Number, Vars};
use std::panic;

fn ts(d: &NaiveDateTime) -> f64 {
    d.and_utc().timestamp() as f64
}

fn node_sets() -> Vec<Vec<(NaiveDateTime, f64)>> {
    let base = ndt(2000, 1, 1);
    let mut out = Vec::new();
    for n in [2usize, 3, 4, 5, 6, 7, 8, 9, 13, 24] {
        let mut v = Vec::new();
        let mut d = base;
        for i in 0..n {
            v.push((d, 1.0 / (1.0 + 0.03 * i as f64 + 0.001 * (i * i) as f64)));
            d = d + Days::new(37 + 61 * ((i * 7 + 3) % 5) as u64);
        }
        out.push(v);
    }
    out
}

fn interval(keys: &[f64], x: f64) -> usize {
    // the interval whose right end is the first node >= x, clamped
    let n = keys.len();
    let first_ge = keys.iter().position(|k| *k >= x).unwrap_or(n);
    let i = first_ge as i64 - 1;
    i.max(0).min(n as i64 - 2) as usize
}

fn oracle(kind: &str, nodes: &[(NaiveDateTime, f64)], q: &NaiveDateTime) -> f64 {
    let keys: Vec<f64> = nodes.iter().map(|(d, _)| ts(d)).collect();
    let x = ts(q);
    let i = interval(&keys, x);
    let (x1, y1, x2, y2) = (keys[i], nodes[i].1, keys[i + 1], nodes[i + 1].1);
    match kind {
        "linear" => y1 + (y2 - y1) * ((x - x1) / (x2 - x1)),
        "log_linear" => (y1.ln() + (y2.ln() - y1.ln()) * ((x - x1) / (x2 - x1))).exp(),
        "linear_zero_rate" => {
            let x0 = keys[0];
            let (t1, t2, t) = (x1 - x0, x2 - x0, x - x0);
            let r2 = y2.ln() * (-1.0 / t2);
            let r = if t1 == 0.0 { r2 } else { let r1 = y1.ln() * (-1.0 / t1); r1 + (r2 - r1) * ((t - t1) / (t2 - t1)) };
            (r * -t).exp()
        }
        "flat_forward" => if x >= x2 { y2 } else { y1 },
        _ => if x <= x1 { y1 } else { y2 },
    }
}

fn close(a: f64, b: f64) -> bool {
    (a - b).abs() <= 1e-10 * (1.0 + a.abs().max(b.abs()))
}

fn build<T: CurveInterpolation>(nodes: &[(NaiveDateTime, f64)], interp: T, order: &[usize]) -> CurveDF<T, NamedCal> {
    let mut m = IndexMap::new();
    for &j in order {
        m.insert(nodes[j].0, nodes[j].1);
    }
    CurveDF::try_new(Nodes::F64(m), interp, "crv", Convention::Act360, Modifier::ModF, Some(100.0), NamedCal::try_new("all").unwrap()).unwrap()
}

/// the same nodes supplied as first- / second-order numbers (each node its own variable), in the given order
fn build_ad<T: CurveInterpolation>(nodes: &[(NaiveDateTime, f64)], interp: T, order: &[usize], second: bool) -> CurveDF<T, NamedCal> {
    let n = if second {
        let mut m = IndexMap::new();
        for &j in order {
            m.insert(nodes[j].0, rateslib::dual::Dual2::new(nodes[j].1, vec![format!("u{}", j)]));
        }
        Nodes::Dual2(m)
    } else {
        let mut m = IndexMap::new();
        for &j in order {
            m.insert(nodes[j].0, Dual::new(nodes[j].1, vec![format!("u{}", j)]));
        }
        Nodes::Dual(m)
    };
    CurveDF::try_new(n, interp, "crv", Convention::Act360, Modifier::ModF, Some(100.0), NamedCal::try_new("all").unwrap()).unwrap()
}

fn queries(nodes: &[(NaiveDateTime, f64)]) -> Vec<NaiveDateTime> {
    let mut q = vec![nodes[0].0 - Days::new(400), nodes[0].0 - Days::new(1), nodes[nodes.len() - 1].0 + Days::new(1), nodes[nodes.len() - 1].0 + Days::new(700)];
    for w in nodes.windows(2) {
        q.push(w[0].0);
        q.push(w[0].0 + Days::new(1));
        q.push(w[0].0 + Days::new(17));
        q.push(w[1].0 - Days::new(1));
    }
    q.push(nodes[nodes.len() - 1].0);
    q
}

fn val(n: &Number) -> f64 {
    f64::from(n)
}

fn check_kind<T: CurveInterpolation + Clone>(func: &str, kind: &str, interp: T) -> bool {
    for nodes in node_sets() {
        let n = nodes.len();
        crate::CASES.fetch_add(1, std::sync::atomic::Ordering::Relaxed);
        crate::EVALS.fetch_add(3 * 3 * queries(&nodes).len(), std::sync::atomic::Ordering::Relaxed);
        {
            let mut smp = crate::SAMPLE.lock().unwrap();
            if smp.is_empty() { *smp = format!("{} curve on {} nodes supplied forwards / reversed / shuffled as f64, Dual and Dual2 nodes: values at and around every node against the closed form of the two bracketing nodes; after order switches values, gradients and Hessians against the formula's partial derivatives", kind, n); }
        }
        let fwd: Vec<usize> = (0..n).collect();
        let mut rev = fwd.clone();
        rev.reverse();
        let mut mixed: Vec<usize> = fwd.iter().map(|i| (i * 5 + 2) % n).collect();
        mixed.sort();
        mixed.dedup();
        let mixed: Vec<usize> = if mixed.len() == n { fwd.iter().map(|i| (i * 5 + 2) % n).collect() } else { rev.clone() };
        for order in [&fwd, &rev, &mixed] {
            let mut curve = build(&nodes, interp.clone(), order);
            for q in queries(&nodes) {
                let exp = oracle(kind, &nodes, &q);
                let got = panic::catch_unwind(panic::AssertUnwindSafe(|| val(&curve.interpolated_value(&q))));
                match got {
                    Ok(g) if close(g, exp) => {}
                    Ok(g) => {
                        report("probe", func, &format!("{} curve, {} nodes supplied in order {:?}, value at {}", kind, n, order, q.date()), &format!("{}", g), &format!("{}", exp), false);
                        return true;
                    }
                    Err(_) => {
                        report("probe", func, &format!("{} curve, {} nodes, value at {}", kind, n, q.date()), "PANIC", &format!("{}", exp), false);
                        return true;
                    }
                }
            }
            // nodes supplied as dual numbers, in the same order
            for second in [false, true] {
                let c = build_ad(&nodes, interp.clone(), order, second);
                for q in queries(&nodes) {
                    let exp = oracle(kind, &nodes, &q);
                    let got = panic::catch_unwind(panic::AssertUnwindSafe(|| val(&c.interpolated_value(&q))));
                    match got {
                        Ok(g) if close(g, exp) => {}
                        Ok(g) => {
                            report("probe", func, &format!("{} curve, {} {} nodes supplied in order {:?}, value at {}", kind, n, if second { "Dual2" } else { "Dual" }, order, q.date()), &format!("{}", g), &format!("{}", exp), false);
                            return true;
                        }
                        Err(_) => {
                            report("probe", func, &format!("{} curve, {} {} nodes supplied in order {:?}, value at {}", kind, n, if second { "Dual2" } else { "Dual" }, order, q.date()), "PANIC", &format!("{}", exp), false);
                            return true;
                        }
                    }
                }
            }
            // index value: base / value on and after the first node (the first node date included), 0 before it, at every order
            {
                let mut ci = build(&nodes, interp.clone(), order);
                for o in [ADOrder::Zero, ADOrder::One, ADOrder::Two] {
                    if ci.set_ad_order(o).is_err() { report("probe", func, "set_ad_order", "Err", "Ok", false); return true; }
                    let mut qs = queries(&nodes);
                    qs.push(nodes[0].0);
                    for q in qs {
                        let before = q < nodes[0].0;
                        let exp = if before { 0.0 } else { 100.0 / oracle(kind, &nodes, &q) };
                        match panic::catch_unwind(panic::AssertUnwindSafe(|| ci.index_value(&q))) {
                            Ok(Ok(v)) => {
                                if !close(val(&v), exp) {
                                    report("probe", func, &format!("{} index curve (base 100), {} nodes at order {:?}: index_value({}){}", kind, n, o, q.date(), if q == nodes[0].0 { " [the first node date]" } else { "" }), &format!("{}", val(&v)), &format!("{}", exp), false);
                                    return true;
                                }
                            }
                            _ => { report("probe", func, &format!("{} index curve, index_value({})", kind, q.date()), "Err / PANIC", &format!("{}", exp), false); return true; }
                        }
                    }
                }
            }
            // derivative-order switch sequences keep every value; float curve nodes are tagged <id><i>
            for seq in [[1usize, 2, 0], [2, 1, 2], [0, 1, 1], [2, 2, 1]] {
                for o in seq {
                    let ad = [ADOrder::Zero, ADOrder::One, ADOrder::Two][o];
                    if curve.set_ad_order(ad).is_err() {
                        report("probe", func, "set_ad_order", "Err", "Ok", false);
                        return true;
                    }
                    for q in queries(&nodes).iter().step_by(3) {
                        let exp = oracle(kind, &nodes, q);
                        let v = curve.interpolated_value(q);
                        if !close(val(&v), exp) {
                            report("probe", func, &format!("{} curve, {} nodes, after set_ad_order sequence {:?} (at order {}), value at {}", kind, n, seq, o, q.date()), &format!("{}", val(&v)), &format!("{}", exp), false);
                            return true;
                        }
                        if (kind == "log_linear" || kind == "linear_zero_rate") && o >= 1 {
                            // the formula is y1^a * y2^b (a, b from the rule): dV/dy1 = V*a/y1, dV/dy2 = V*b/y2, second derivatives
                            // V*a*(a-1)/y1^2, V*a*b/(y1*y2), V*b*(b-1)/y2^2; zero for every other node
                            let keys: Vec<f64> = nodes.iter().map(|(d, _)| ts(d)).collect();
                            let i = interval(&keys, ts(q));
                            let (y1, y2) = (nodes[i].1, nodes[i + 1].1);
                            let (a, b) = if kind == "log_linear" {
                                let w = (ts(q) - keys[i]) / (keys[i + 1] - keys[i]);
                                (1.0 - w, w)
                            } else {
                                let (t1, t2, t) = (keys[i] - keys[0], keys[i + 1] - keys[0], ts(q) - keys[0]);
                                if t1 == 0.0 { (0.0, t / t2) } else { let w = (t - t1) / (t2 - t1); (t * (1.0 - w) / t1, t * w / t2) }
                            };
                            let vv = val(&v);
                            let tags: Vec<String> = (0..n).map(|j| format!("crv{}", j)).collect();
                            let g: Vec<f64> = match &v {
                                Number::Dual(d) => d.gradient1(tags.clone()).to_vec(),
                                Number::Dual2(d) => d.gradient1(tags.clone()).to_vec(),
                                Number::F64(_) => vec![f64::NAN; n],
                            };
                            for j in 0..n {
                                let e = if j == i { vv * a / y1 } else if j == i + 1 { vv * b / y2 } else { 0.0 };
                                if (g[j] - e).abs() > 1e-9 * (1.0 + e.abs()) {
                                    report("probe", func, &format!("{} curve, {} nodes at order {}, d value({}) / d node {} (tag crv{})", kind, n, o, q.date(), j, j), &format!("{}", g[j]), &format!("{}", e), false);
                                    return true;
                                }
                            }
                            if let Number::Dual2(d) = &v {
                                use rateslib::dual::Gradient2;
                                let h = d.gradient2(tags.clone());
                                for j in 0..n {
                                    for l in 0..n {
                                        let e = if j == i && l == i { vv * a * (a - 1.0) / (y1 * y1) }
                                            else if j == i + 1 && l == i + 1 { vv * b * (b - 1.0) / (y2 * y2) }
                                            else if (j == i && l == i + 1) || (j == i + 1 && l == i) { vv * a * b / (y1 * y2) }
                                            else { 0.0 };
                                        if (h[[j, l]] - e).abs() > 1e-9 * (1.0 + e.abs()) {
                                            report("probe", func, &format!("{} curve, {} nodes at order 2, d2 value({}) / d node {} d node {}", kind, n, q.date(), j, l), &format!("{}", h[[j, l]]), &format!("{}", e), false);
                                            return true;
                                        }
                                    }
                                }
                            }
                        }
                        if kind == "linear" && o >= 1 {
                            // gradient w.r.t. the node tags: (1-w) on the left node of the interval, w on the right node, 0 elsewhere
                            let keys: Vec<f64> = nodes.iter().map(|(d, _)| ts(d)).collect();
                            let i = interval(&keys, ts(q));
                            let w = (ts(q) - keys[i]) / (keys[i + 1] - keys[i]);
                            let tags: Vec<String> = (0..n).map(|j| format!("crv{}", j)).collect();
                            let g: Vec<f64> = match &v {
                                Number::Dual(d) => d.gradient1(tags.clone()).to_vec(),
                                Number::Dual2(d) => d.gradient1(tags.clone()).to_vec(),
                                Number::F64(_) => vec![f64::NAN; n],
                            };
                            for j in 0..n {
                                let e = if j == i { 1.0 - w } else if j == i + 1 { w } else { 0.0 };
                                if !close(g[j], e) {
                                    report("probe", func, &format!("linear curve, {} nodes at order {}, d value({}) / d node {} (tag crv{})", n, o, q.date(), j, j), &format!("{}", g[j]), &format!("{}", e), false);
                                    return true;
                                }
                            }
                        }
                    }
                }
            }
        }
    }
    false
}

fn check_names() -> Option<(String, String, String)> {
    // One <-> Two switches keep the variable names already present
    let nodes = Nodes::Dual(IndexMap::from_iter(vec![
        (ndt(2000, 1, 1), Dual::new(1.0, vec!["x".to_string()])),
        (ndt(2001, 1, 1), Dual::new(0.99, vec!["y".to_string()])),
        (ndt(2002, 1, 1), Dual::new(0.98, vec!["z".to_string()])),
    ]));
    let mut curve = CurveDF::try_new(nodes, LinearInterpolator::new(), "crv", Convention::Act360, Modifier::ModF, None, NamedCal::try_new("all").unwrap()).unwrap();
    let names = |n: &Number| -> Vec<String> {
        match n {
            Number::F64(_) => vec![],
            Number::Dual(d) => { let mut v: Vec<String> = d.vars().iter().cloned().collect(); v.sort(); v }
            Number::Dual2(d) => { let mut v: Vec<String> = d.vars().iter().cloned().collect(); v.sort(); v }
        }
    };
    let q = ndt(2001, 9, 15);
    let before = names(&curve.interpolated_value(&q));
    for (step, o) in [ADOrder::Two, ADOrder::One, ADOrder::Two, ADOrder::One].into_iter().enumerate() {
        curve.set_ad_order(o).ok()?;
        let after = names(&curve.interpolated_value(&q));
        if after != before {
            return Some((format!("curve with user-named Dual nodes x,y,z; order switches One->Two->One->...: after step {} names of value at 2001-09-15", step + 1), format!("{:?}", after), format!("{:?}", before)));
        }
    }
    None
}

pub fn probe(func: &str) -> bool {
    let known = ["index_left", "index_left_i64", "interpolated_value", "node_index", "set_ad_order", "index_value", "keys", "first_key",
                 "linear_interp_f64", "linear_interp_dual", "linear_interp_dual2", "log_linear_interp_f64", "log_linear_interp_dual",
                 "log_linear_interp_dual2", "linear_zero_interp_f64", "linear_zero_interp_dual", "linear_zero_interp_dual2", "ad",
                 "try_new", "from", "sort_keys", "get_variable_tags"];
    if !known.contains(&func) {
        return false;
    }
    if check_kind(func, "linear", LinearInterpolator::new()) { return true; }
    if check_kind(func, "log_linear", LogLinearInterpolator::new()) { return true; }
    if check_kind(func, "linear_zero_rate", LinearZeroRateInterpolator::new()) { return true; }
    if check_kind(func, "flat_forward", FlatForwardInterpolator::new()) { return true; }
    if check_kind(func, "flat_backward", FlatBackwardInterpolator::new()) { return true; }
    if let Some((i, o, e)) = check_names() {
        report("probe", func, &i, &o, &e, false);
        return true;
    }
    false
}
