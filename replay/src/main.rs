//! Native replay of counterexamples / known findings against the real compiled rateslib, and
//! deterministic *probe searches*: when a Verus obligation fails (Verus gives no model) the driver
//! asks this program for a concrete failing input of the same function on the real code.  The probe
//! compares the real function with an oracle written directly from the property statement.  It is a
//! replay aid, not the decision procedure, and is not counted as coverage.
//!
//! usage: vx-replay <case> | vx-replay probe <function-name>
//! prints JSON lines {case|probe, input, observed, expected, holds}
use chrono::{Datelike, Days, NaiveDateTime};
use rateslib::calendars::{
    get_eom, get_imm, get_roll, is_eom, is_imm, is_leap_year, ndt, Cal, DateRoll, Modifier, RollDay, UnionCal,
};
use std::panic;

mod probe_dual;
mod probe_curves;
mod probe_calendars;
mod probe_linalg;
mod probe_fx;
mod probe_splines;
mod probe_ctor;

/// counters filled by the probes that report coverage (comparisons made, distinct cases built, one case written out)
pub static EVALS: std::sync::atomic::AtomicUsize = std::sync::atomic::AtomicUsize::new(0);
pub static CASES: std::sync::atomic::AtomicUsize = std::sync::atomic::AtomicUsize::new(0);
pub static SAMPLE: std::sync::Mutex<String> = std::sync::Mutex::new(String::new());

fn js(s: &str) -> String {
    s.replace('\\', "\\\\").replace('"', "\\\"").replace('\n', " ").replace('\t', " ")
}

pub fn report(kind: &str, name: &str, input: &str, observed: &str, expected: &str, holds: bool) {
    println!(
        "{{\"{}\":\"{}\",\"input\":\"{}\",\"observed\":\"{}\",\"expected\":\"{}\",\"holds\":{}}}",
        kind, name, js(input), js(observed), js(expected), holds
    );
}

// ------------------------------------------------------------------ oracles (from the property text)

fn elig<C: DateRoll>(c: &C, d: &NaiveDateTime, st: bool) -> bool {
    c.is_weekday(d) && !c.is_holiday(d) && (!st || c.is_settlement(d))
}
fn o_fwd<C: DateRoll>(c: &C, d: NaiveDateTime, st: bool) -> NaiveDateTime {
    let mut x = d;
    while !elig(c, &x, st) {
        x = x + Days::new(1);
    }
    x
}
fn o_bwd<C: DateRoll>(c: &C, d: NaiveDateTime, st: bool) -> NaiveDateTime {
    let mut x = d;
    while !elig(c, &x, st) {
        x = x - Days::new(1);
    }
    x
}
fn same_month(a: &NaiveDateTime, b: &NaiveDateTime) -> bool {
    a.year() == b.year() && a.month() == b.month()
}
fn o_roll<C: DateRoll>(c: &C, d: NaiveDateTime, m: &Modifier, st: bool) -> NaiveDateTime {
    match m {
        Modifier::Act => d,
        Modifier::F => o_fwd(c, d, st),
        Modifier::P => o_bwd(c, d, st),
        Modifier::ModF => {
            let f = o_fwd(c, d, st);
            if same_month(&f, &d) { f } else { o_bwd(c, d, st) }
        }
        Modifier::ModP => {
            let f = o_bwd(c, d, st);
            if same_month(&f, &d) { f } else { o_fwd(c, d, st) }
        }
    }
}
/// n-th business day from a business day d (unsettled), then settlement adjustment
fn o_add_bus<C: DateRoll>(c: &C, d: NaiveDateTime, n: i32, st: bool) -> Option<NaiveDateTime> {
    if !elig(c, &d, false) {
        return None;
    }
    let mut x = d;
    let mut k = 0;
    while k < n.abs() {
        x = if n > 0 { x + Days::new(1) } else { x - Days::new(1) };
        if elig(c, &x, false) {
            k += 1;
        }
    }
    if !st {
        Some(x)
    } else if n < 0 {
        Some(o_bwd(c, x, true))
    } else {
        Some(o_fwd(c, x, true))
    }
}
fn o_lag<C: DateRoll>(c: &C, d: NaiveDateTime, n: i32, st: bool) -> NaiveDateTime {
    if elig(c, &d, false) {
        return o_add_bus(c, d, n, st).unwrap();
    }
    if n == 0 {
        o_fwd(c, d, false)
    } else if n < 0 {
        o_add_bus(c, o_bwd(c, d, false), n + 1, st).unwrap()
    } else {
        o_add_bus(c, o_fwd(c, d, false), n - 1, st).unwrap()
    }
}
fn dim(y: i32, m: u32) -> u32 {
    match m {
        2 => if y % 4 == 0 && (y % 100 != 0 || y % 400 == 0) { 29 } else { 28 },
        4 | 6 | 9 | 11 => 30,
        _ => 31,
    }
}
fn third_wed(y: i32, m: u32) -> NaiveDateTime {
    let mut d = ndt(y, m, 1);
    let mut n = 0;
    loop {
        if d.weekday() == chrono::Weekday::Wed {
            n += 1;
            if n == 3 {
                return d;
            }
        }
        d = d + Days::new(1);
    }
}
fn o_add_months(d: NaiveDateTime, months: i32, roll: &RollDay) -> NaiveDateTime {
    let mi = d.year() * 12 + d.month() as i32 - 1 + months;
    let (y, m) = (mi.div_euclid(12), (mi.rem_euclid(12) + 1) as u32);
    match roll {
        RollDay::IMM {} => third_wed(y, m),
        _ => {
            let want = match roll {
                RollDay::Unspecified {} => d.day(),
                RollDay::Int { day } => *day,
                RollDay::EoM {} => 31,
                RollDay::SoM {} => 1,
                RollDay::IMM {} => unreachable!(),
            };
            ndt(y, m, want.min(dim(y, m)))
        }
    }
}

// ------------------------------------------------------------------ calendar families

fn cal_family() -> Vec<(String, UnionCal)> {
    let mut out = Vec::new();
    // windows around a month end, a year end and a leap-february end
    let windows = [(2024, 3, 26), (2023, 12, 27), (2024, 2, 25), (2000, 2, 25)];
    for (wy, wm, wd) in windows {
        let base = ndt(wy, wm, wd);
        for amask in 0u32..64 {
            for bmask in [0u32, 1, 2, 4, 8, 16, 32, 3, 12, 48, 21, 42, 63] {
                let ah: Vec<NaiveDateTime> = (0..6).filter(|i| amask >> i & 1 == 1).map(|i| base + Days::new(i as u64 + 1)).collect();
                let bh: Vec<NaiveDateTime> = (0..6).filter(|i| bmask >> i & 1 == 1).map(|i| base + Days::new(i as u64 + 2)).collect();
                let a = Cal::new(ah, vec![5, 6]);
                let b = Cal::new(bh, vec![5, 6]);
                out.push((format!("UnionCal(cal=Cal(hol_mask={:#x}@{}+1.., wk=[5,6]), settle=Cal(hol_mask={:#x}@{}+2.., wk=[5,6]))", amask, base.date(), bmask, base.date()), UnionCal::new(vec![a], Some(vec![b]))));
            }
        }
    }
    // long closure (more than 11 months of consecutive holidays)
    let mut hols = Vec::new();
    let mut d = ndt(2000, 1, 15);
    while d < ndt(2001, 1, 15) {
        hols.push(d);
        d = d + Days::new(1);
    }
    out.push(("UnionCal(cal=Cal(holidays=2000-01-15..2001-01-14, wk=[]))".into(), UnionCal::new(vec![Cal::new(hols, vec![])], None)));
    out.push(("UnionCal(cal=Cal(no holidays, wk=[0,1,2,3,4,5]))".into(), UnionCal::new(vec![Cal::new(vec![], vec![0, 1, 2, 3, 4, 5])], None)));
    out
}

fn mods() -> [Modifier; 5] {
    [Modifier::Act, Modifier::F, Modifier::ModF, Modifier::P, Modifier::ModP]
}

fn catch<T>(f: impl FnOnce() -> T + panic::UnwindSafe) -> Option<T> {
    panic::catch_unwind(f).ok()
}

fn show<T: std::fmt::Display>(o: &Option<T>) -> String {
    match o {
        Some(v) => format!("{}", v),
        None => "PANIC".into(),
    }
}

fn probe_dateroll(func: &str) -> bool {
    let fam = cal_family();
    let mut budget = 0u64;
    for (name, cal) in &fam {
        budget += 1;
        // dates: 14 days from the window base (parsed back from the first holiday-free anchor)
        let anchors = [ndt(2024, 3, 26), ndt(2023, 12, 27), ndt(2024, 2, 25), ndt(2000, 2, 25), ndt(2000, 1, 15), ndt(2000, 12, 30)];
        for a in anchors {
            for off in 0..12u64 {
                let d = a + Days::new(off);
                for st in [false, true] {
                    match func {
                        "roll_forward_bus_day" | "roll_backward_bus_day" | "roll_mod_forward_bus_day" | "roll_mod_backward_bus_day"
                        | "roll_forward_settled_bus_day" | "roll_backward_settled_bus_day" | "roll_forward_mod_settled_bus_day"
                        | "roll_backward_mod_settled_bus_day" | "roll" | "roll_with_settlement" | "roll_without_settlement" => {
                            for m in mods() {
                                let exp = o_roll(cal, d, &m, st);
                                let obs = catch(|| cal.roll(&d, &m, st));
                                if obs != Some(exp) {
                                    report("probe", func, &format!("{}.roll({}, {:?}, settlement={})", name, d.date(), m, st), &show(&obs), &exp.to_string(), false);
                                    return true;
                                }
                            }
                        }
                        "add_bus_days" | "lag" | "bus_date_range" => {
                            for n in [-128i32, -127, -20, -3, -2, -1, 0, 1, 2, 3, 20, 126, 127] {
                                if budget % 7 != 0 && n.abs() > 3 {
                                    continue;
                                }
                                if func == "lag" {
                                    let exp = o_lag(cal, d, n, st);
                                    let obs = catch(|| cal.lag(&d, n as i8, st));
                                    if obs != Some(exp) {
                                        report("probe", func, &format!("{}.lag({}, {}, settlement={})", name, d.date(), n, st), &show(&obs), &exp.to_string(), false);
                                        return true;
                                    }
                                } else {
                                    let exp = o_add_bus(cal, d, n, st);
                                    let obs = catch(|| cal.add_bus_days(&d, n as i8, st).ok());
                                    let obs_s = match &obs { None => "PANIC".to_string(), Some(None) => "Err".into(), Some(Some(v)) => v.to_string() };
                                    let exp_s = match &exp { None => "Err".to_string(), Some(v) => v.to_string() };
                                    if obs_s != exp_s {
                                        report("probe", func, &format!("{}.add_bus_days({}, {}, settlement={})", name, d.date(), n, st), &obs_s, &exp_s, false);
                                        return true;
                                    }
                                }
                            }
                            if func == "bus_date_range" && !st {
                                let e = d + Days::new(9);
                                let exp: Option<Vec<NaiveDateTime>> = if elig(cal, &d, false) && elig(cal, &e, false) {
                                    Some((0..10).map(|k| d + Days::new(k)).filter(|x| elig(cal, x, false)).collect())
                                } else { None };
                                let obs = catch(|| cal.bus_date_range(&d, &e).ok());
                                if obs != Some(exp.clone()) {
                                    report("probe", func, &format!("{}.bus_date_range({}, {})", name, d.date(), e.date()), &format!("{:?}", obs), &format!("{:?}", exp), false);
                                    return true;
                                }
                            }
                        }
                        "add_days" => {
                            for n in [-128i32, -127, -31, -1, 0, 1, 30, 127] {
                                for m in mods() {
                                    let shifted = if n < 0 { d - Days::new((-n) as u64) } else { d + Days::new(n as u64) };
                                    let exp = o_roll(cal, shifted, &m, st);
                                    let obs = catch(|| cal.add_days(&d, n as i8, &m, st));
                                    if obs != Some(exp) {
                                        report("probe", func, &format!("{}.add_days({}, {}, {:?}, settlement={})", name, d.date(), n, m, st), &show(&obs), &exp.to_string(), false);
                                        return true;
                                    }
                                }
                            }
                        }
                        // the derived predicates: a day is a non-business day exactly when it is not a business day (weekday and
                        // no holiday), for the union and for each member calendar (holidays falling on week-end days included)
                        "is_non_bus_day" | "is_bus_day" => {
                            CASES.fetch_add(1, std::sync::atomic::Ordering::Relaxed);
                            let bus = cal.is_weekday(&d) && !cal.is_holiday(&d);
                            let obs = catch(|| (cal.is_bus_day(&d), cal.is_non_bus_day(&d)));
                            if obs != Some((bus, !bus)) {
                                report("probe", func, &format!("{}: (is_bus_day, is_non_bus_day)({})", name, d.date()), &format!("{:?}", obs), &format!("({}, {})", bus, !bus), false);
                                return true;
                            }
                            // a member calendar whose holiday list contains week-end days
                            let sat = d + Days::new((12 - d.weekday().num_days_from_monday() as u64) % 7);
                            let c = Cal::new(vec![sat, d], vec![5, 6]);
                            for x in [sat, d, d + Days::new(1)] {
                                let b = c.is_weekday(&x) && !c.is_holiday(&x);
                                let o = catch(|| (c.is_bus_day(&x), c.is_non_bus_day(&x)));
                                if o != Some((b, !b)) {
                                    report("probe", func, &format!("Cal(holidays=[{}, {}], wk=[5,6]): (is_bus_day, is_non_bus_day)({})", sat.date(), d.date(), x.date()), &format!("{:?}", o), &format!("({}, {})", b, !b), false);
                                    return true;
                                }
                            }
                        }
                        // every calendar day from start to end, both included
                        "cal_date_range" => {
                            CASES.fetch_add(1, std::sync::atomic::Ordering::Relaxed);
                            for len in [0u64, 1, 9, 400] {
                                let e = d + Days::new(len);
                                let exp: Vec<NaiveDateTime> = (0..=len).map(|k| d + Days::new(k)).collect();
                                let obs = catch(|| cal.cal_date_range(&d, &e).ok());
                                if obs != Some(Some(exp.clone())) {
                                    let shown = match &obs { None => "PANIC".to_string(), Some(None) => "Err".to_string(), Some(Some(v)) => format!("{} dates, first {:?}, last {:?}", v.len(), v.first().map(|x| x.date()), v.last().map(|x| x.date())) };
                                    report("probe", func, &format!("{}.cal_date_range({}, {})", name, d.date(), e.date()), &shown, &format!("{} dates, first {}, last {}", exp.len(), d.date(), e.date()), false);
                                    return true;
                                }
                            }
                        }
                        _ => return false,
                    }
                }
            }
        }
    }
    false
}

fn probe_months(func: &str) -> bool {
    let cal = Cal::new(vec![], vec![]);
    let rolls = |d: u32| vec![RollDay::Unspecified {}, RollDay::Int { day: d }, RollDay::EoM {}, RollDay::SoM {}, RollDay::IMM {}];
    for y in (1970..=2200).filter(|y| y % 4 == 0 || *y < 1976 || *y > 2194 || y % 100 == 1) {
        for m in 1..=12u32 {
            match func {
                "get_imm" | "is_imm" => {
                    let exp = third_wed(y, m);
                    let obs = catch(|| get_imm(y, m));
                    if obs != Some(exp) {
                        report("probe", func, &format!("get_imm({}, {})", y, m), &show(&obs), &exp.to_string(), false);
                        return true;
                    }
                    for dd in 1..=dim(y, m) {
                        let d = ndt(y, m, dd);
                        if catch(|| is_imm(&d)) != Some(d == exp) {
                            report("probe", func, &format!("is_imm({})", d.date()), "other", &format!("{}", d == exp), false);
                            return true;
                        }
                    }
                }
                "get_eom" | "is_eom" => {
                    let exp = ndt(y, m, dim(y, m));
                    let obs = catch(|| get_eom(y, m));
                    if obs != Some(exp) {
                        report("probe", func, &format!("get_eom({}, {})", y, m), &show(&obs), &exp.to_string(), false);
                        return true;
                    }
                    for dd in 1..=dim(y, m) {
                        let d = ndt(y, m, dd);
                        if catch(|| is_eom(&d)) != Some(d == exp) {
                            report("probe", func, &format!("is_eom({})", d.date()), "other", &format!("{}", d == exp), false);
                            return true;
                        }
                    }
                }
                "is_leap_year" => {
                    let exp = dim(y, 2) == 29;
                    if catch(|| is_leap_year(y)) != Some(exp) {
                        report("probe", func, &format!("is_leap_year({})", y), "other", &format!("{}", exp), false);
                        return true;
                    }
                }
                "get_roll" | "get_roll_by_day" => {
                    for day in 1..=31u32 {
                        for r in rolls(day) {
                            if matches!(r, RollDay::Unspecified {}) {
                                continue;
                            }
                            let exp = o_add_months(ndt(y, m, 1), 0, &r);
                            let obs = catch(|| get_roll(y, m, &r).ok()).flatten();
                            if obs != Some(exp) {
                                report("probe", func, &format!("get_roll({}, {}, {:?})", y, m, r), &show(&obs), &exp.to_string(), false);
                                return true;
                            }
                        }
                    }
                }
                "add_months" => {
                    for dd in [1u32, 15, 28, 29, 30, 31] {
                        if dd > dim(y, m) {
                            continue;
                        }
                        let d = ndt(y, m, dd);
                        for months in [-49i32, -48, -13, -12, -11, -2, -1, 0, 1, 2, 11, 12, 13, 24, 36, 48] {
                            let ty = (y * 12 + m as i32 - 1 + months).div_euclid(12);
                            if !(1970..=2200).contains(&ty) {
                                continue;
                            }
                            for r in rolls(dd.max(29)) {
                                let exp = o_add_months(d, months, &r);
                                let obs = catch(|| cal.add_months(&d, months, &Modifier::Act, &r, false));
                                if obs != Some(exp) {
                                    report("probe", func, &format!("Cal([],[]).add_months({}, {}, Act, {:?}, false)", d.date(), months, r), &show(&obs), &exp.to_string(), false);
                                    return true;
                                }
                            }
                        }
                    }
                }
                _ => return false,
            }
        }
    }
    false
}

fn main() {
    let args: Vec<String> = std::env::args().collect();
    let case = args.get(1).map(|s| s.as_str()).unwrap_or("");
    panic::set_hook(Box::new(|_| {}));
    match case {
        // fixed finding D5: modified following with > 11 months of consecutive non-business days
        "d5" => {
            let mut hols = Vec::new();
            let mut d = ndt(2000, 1, 15);
            while d < ndt(2001, 1, 15) {
                hols.push(d);
                d = d + Days::new(1);
            }
            let cal = Cal::new(hols, vec![]);
            let r = cal.roll(&ndt(2000, 1, 15), &Modifier::ModF, false);
            let expected = ndt(2000, 1, 14);
            report("case", "d5", "Cal(holidays=2000-01-15..2001-01-14, week_mask=[]).roll(2000-01-15, ModF, false)", &r.to_string(), &expected.to_string(), r == expected);
        }
        // fixed finding D2: add_days(-128)
        "d2" => {
            let cal = Cal::new(vec![], vec![]);
            let res = catch(|| cal.add_days(&ndt(2000, 6, 15), -128, &Modifier::Act, false));
            let expected = ndt(2000, 6, 15) - Days::new(128);
            report("case", "d2", "add_days(2000-06-15, -128, Act, false)", &show(&res), &expected.to_string(), res == Some(expected));
        }
        // finding D7: gradient1_manifold for a name the number does not depend on
        "d7" => {
            use rateslib::dual::{Dual2, Gradient2};
            let d1 = Dual2::try_new(2.0, vec!["x".to_string(), "y".to_string()], vec![1., 2.], vec![2., 3., 3., 5.]).unwrap();
            let r = d1.gradient1_manifold(vec!["y".to_string(), "w".to_string()]);
            let g: Vec<f64> = {
                use rateslib::dual::Gradient1;
                r[1].gradient1(vec!["y".to_string(), "w".to_string()]).to_vec()
            };
            let ok = g == vec![0.0, 0.0];
            report("case", "d7", "Dual2(2.0, [x,y], [1,2], [[2,3],[3,5]]).gradient1_manifold([y, w])[1].gradient1([y, w])", &format!("{:?}", g), "[0.0, 0.0]", ok);
        }
        // finding D1: "fed" must be "nyc" without Good Friday
        "d1" => {
            let cal = rateslib::calendars::get_calendar_by_name("fed").unwrap();
            let gf = ndt(1970, 3, 27);
            let r = cal.is_holiday(&gf);
            report("case", "d1", "get_calendar_by_name(\"fed\").is_holiday(1970-03-27)  [Good Friday 1970]", &format!("{}", r), "false", !r);
        }
        // finding D3: loading a named calendar whose name is unknown must be an error, not an abort
        "d3" => {
            use rateslib::calendars::NamedCal;
            use rateslib::json::JSON;
            let ok_doc = NamedCal::try_new("tgt,ldn|fed").unwrap().to_json().unwrap();
            let bad_doc = ok_doc.replace("tgt,ldn|fed", "tgt,xyz|fed");
            let r = catch(|| NamedCal::from_json(&bad_doc).is_err());
            report("case", "d3", &format!("NamedCal::from_json({})  [valid document with the name altered]", bad_doc), &match r { None => "PANIC".to_string(), Some(e) => format!("is_err = {}", e) }, "Err", r == Some(true));
        }
        // finding D4: loading an FX market from inconsistent JSON must be an error, not an abort
        "d4" => {
            use rateslib::dual::Number;
            use rateslib::fx::rates::{FXRate, FXRates};
            use rateslib::json::JSON;
            let fxr = FXRates::try_new(vec![FXRate::try_new("eur", "usd", Number::F64(1.08), None).unwrap(), FXRate::try_new("usd", "jpy", Number::F64(110.0), None).unwrap()], None).unwrap();
            let doc = fxr.to_json().unwrap();
            // (a) the quote list emptied, (b) the currency list emptied, (c) one quote duplicated
            let v: serde_json::Value = serde_json::from_str(&doc).unwrap();
            let mut docs: Vec<(String, String)> = Vec::new();
            let mut a = v.clone(); a["fx_rates"] = serde_json::json!([]); docs.push(("fx_rates emptied".into(), a.to_string()));
            let mut b = v.clone(); b["currencies"] = serde_json::json!([]); docs.push(("currencies emptied".into(), b.to_string()));
            let mut c = v.clone(); let q0 = c["fx_rates"][0].clone(); c["fx_rates"].as_array_mut().unwrap().push(q0); docs.push(("first quote duplicated".into(), c.to_string()));
            let mut all_ok = true;
            let mut obs = Vec::new();
            for (what, d) in &docs {
                let r = catch(|| FXRates::from_json(d).is_err());
                obs.push(format!("{}: {}", what, match r { None => "PANIC".to_string(), Some(e) => format!("is_err = {}", e) }));
                all_ok &= r == Some(true);
            }
            report("case", "d4", &format!("FXRates::from_json on a valid document ({}) with: fx_rates emptied / currencies emptied / first quote duplicated", doc), &obs.join("; "), "Err for each", all_ok);
        }
        // finding D6: spline solving with a NaN datum must be an error or a value, not an abort
        "d6" => {
            use rateslib::splines::PPSpline;
            let t = vec![0.0, 0.0, 0.0, 0.0, 2.0, 5.0, 5.0, 5.0, 5.0];
            let tau = vec![0.0, 1.0, 2.0, 4.0, 5.0];
            let mut obs = Vec::new();
            let mut all_ok = true;
            for (what, tau_, y_) in [("NaN site", vec![0.0, f64::NAN, 2.0, 4.0, 5.0], vec![1.0, 2.0, 3.0, 2.0, 1.0]), ("NaN datum", tau.clone(), vec![1.0, f64::NAN, 3.0, 2.0, 1.0])] {
                let r = catch(|| { let mut s = PPSpline::<f64>::new(4, t.clone(), None); s.csolve(&tau_, &y_, 0, 0, false).is_ok() });
                obs.push(format!("{}: {}", what, match r { None => "PANIC".to_string(), Some(e) => format!("returned (is_ok = {})", e) }));
                all_ok &= r.is_some();
            }
            report("case", "d6", "PPSpline(k=4, t=[0,0,0,0,2,5,5,5,5]).csolve with a NaN site / a NaN datum", &obs.join("; "), "a Result (no abort)", all_ok);
        }
        // finding D8 (property C16, which this technique does not claim: found by the load-time reconstruction probe of C20):
        // a double that needs 17 significant digits must survive to_json -> from_json bit for bit
        "d8" => {
            use rateslib::dual::Number;
            use rateslib::fx::rates::{Ccy, FXRate, FXRates};
            use rateslib::json::JSON;
            let (eur, usd) = (Ccy::try_new("eur").unwrap(), Ccy::try_new("usd").unwrap());
            // the quote of a one-quote market after to_json -> from_json, as bits (None: error or abort)
            let trip = |x: f64| -> Option<u64> {
                let fxr = FXRates::try_new(vec![FXRate::try_new("eur", "usd", Number::F64(x), None).unwrap()], None).ok()?;
                let doc = fxr.to_json().ok()?;
                let back = catch(|| FXRates::from_json(&doc).ok())??;
                match back.rate(&eur, &usd)? { Number::F64(v) => Some(v.to_bits()), Number::Dual(d) => Some(d.real().to_bits()), Number::Dual2(d) => Some(d.real().to_bits()) }
            };
            let mut obs = Vec::new();
            let mut all_ok = true;
            for x in [0.012750000000000001_f64, 0.1 + 0.2, 1.0 / 3.0, 2.2250738585072014e-308, 1.7976931348623157e300, 0.3 - 0.1, 1350.0 * 1.03, 7.5 * 1.04 / 110.0] {
                let back = trip(x);
                let same = back == Some(x.to_bits());
                if !same { obs.push(format!("{:e} (bits {:#x}) loads as {}", x, x.to_bits(), match back { Some(b) => format!("{:e} (bits {:#x})", f64::from_bits(b), b), None => "an error".to_string() })); }
                all_ok &= same;
            }
            // a denser sweep: positive finite doubles in [1e-300, 1e300] from a fixed linear congruential sequence
            let mut st: u64 = 0x9E3779B97F4A7C15;
            let (mut n, mut n_bad) = (0u32, 0u32);
            let mut first_bad: Option<f64> = None;
            while n < 20000 {
                st = st.wrapping_mul(6364136223846793005).wrapping_add(1442695040888963407);
                let x = f64::from_bits(st >> 1);
                if !(x.is_finite() && x >= 1e-300 && x <= 1e300) { continue; }
                n += 1;
                if trip(x) != Some(x.to_bits()) { n_bad += 1; if first_bad.is_none() { first_bad = Some(x); } }
            }
            if n_bad > 0 { all_ok = false; obs.push(format!("{} of {} pseudo-random doubles in [1e-300, 1e300] do not survive, first {:e}", n_bad, n, first_bad.unwrap())); }
            report("case", "d8", "FXRates([eurusd = x]).to_json() -> FXRates::from_json(..).rate(eur, usd) for doubles x needing all 17 significant digits", &if obs.is_empty() { "every quote came back bit for bit".to_string() } else { obs.join("; ") }, "every quote comes back bit for bit", all_ok);
        }
        // jsonmut: bounded sweep for C20's loading clause -- every document obtained from a valid one by deleting a field or list
        // element, duplicating a list element, or altering one value (strings, numbers, null, wrong type) must load to a value
        // or an error, never abort.  Serde's expansion and serde_json are outside both verifiers: this is exploration with the
        // stated bound (four documents x every node x the alteration table below), never counted as proved.
        "jsonmut" => {
            use rateslib::calendars::{Cal, NamedCal, UnionCal};
            use rateslib::dual::{Dual, Number};
            use rateslib::fx::rates::{Ccy, FXRate, FXRates};
            use rateslib::json::JSON;
            use serde_json::Value;
            std::panic::set_hook(Box::new(|_| {}));
            fn paths(v: &Value, here: Vec<String>, out: &mut Vec<Vec<String>>) {
                out.push(here.clone());
                match v {
                    Value::Object(m) => for (k, c) in m { let mut p = here.clone(); p.push(k.clone()); paths(c, p, out); },
                    Value::Array(a) => for (i, c) in a.iter().enumerate() { let mut p = here.clone(); p.push(i.to_string()); paths(c, p, out); },
                    _ => {}
                }
            }
            fn at<'a>(v: &'a mut Value, p: &[String]) -> Option<&'a mut Value> {
                let mut cur = v;
                for k in p { cur = match cur { Value::Object(m) => m.get_mut(k)?, Value::Array(a) => a.get_mut(k.parse::<usize>().ok()?)?, _ => return None }; }
                Some(cur)
            }
            fn alterations(v: &Value) -> Vec<Value> {
                use serde_json::json;
                let mut out = vec![Value::Null, json!({}), json!([]), json!("x"), json!(1)];
                match v {
                    Value::String(s) => { for t in ["", "eu", "jpyx", "\u{ff}\u{ff}\u{ff}", "e\u{301}u", "tgt,xyz", "|", "tgt||fed", "2001-01-01T00:00:00", "not a date"] { out.push(json!(t)); } out.push(json!(s.to_uppercase())); out.push(json!(format!("{} ", s))); }
                    Value::Number(_) => { for t in [json!(0), json!(-1), json!(7), json!(255), json!(256), json!(1e308), json!(-0.0), json!(1.5), json!(18446744073709551615u64)] { out.push(t); } }
                    Value::Bool(b) => out.push(json!(!b)),
                    _ => {}
                }
                out
            }
            let fxr1 = FXRates::try_new(vec![FXRate::try_new("eur", "usd", Number::F64(1.08), None).unwrap(), FXRate::try_new("usd", "jpy", Number::F64(110.0), None).unwrap()], None).unwrap();
            let fxr2 = FXRates::try_new(vec![
                FXRate::try_new("eur", "usd", Number::Dual(Dual::new(1.08, vec!["q".to_string()])), Some(ndt(2004, 1, 5))).unwrap(),
                FXRate::try_new("gbp", "usd", Number::F64(1.25), Some(ndt(2004, 1, 5))).unwrap()], Some(Ccy::try_new("usd").unwrap())).unwrap();
            let cal = Cal::new(vec![ndt(2015, 9, 7), ndt(2015, 9, 9)], vec![5, 6]);
            let docs: Vec<(&str, String)> = vec![
                ("NamedCal", NamedCal::try_new("tgt,ldn|fed").unwrap().to_json().unwrap()),
                ("FXRates", fxr1.to_json().unwrap()),
                ("FXRates", fxr2.to_json().unwrap()),
                ("Cal", cal.to_json().unwrap()),
                ("UnionCal", UnionCal::new(vec![cal.clone()], Some(vec![cal.clone()])).to_json().unwrap()),
            ];
            let mut n_docs: u64 = 0;
            let mut bad: Option<(String, String)> = None;
            'outer: for (kind, doc) in &docs {
                let root: Value = serde_json::from_str(doc).unwrap();
                let mut ps = Vec::new();
                paths(&root, vec![], &mut ps);
                let mut variants: Vec<(String, Value)> = Vec::new();
                for p in &ps {
                    if p.is_empty() { continue; }
                    let (parent, last) = (&p[..p.len() - 1], &p[p.len() - 1]);
                    // delete
                    let mut r = root.clone();
                    if let Some(par) = at(&mut r, parent) {
                        match par { Value::Object(m) => { m.remove(last); } Value::Array(a) => { if let Ok(i) = last.parse::<usize>() { if i < a.len() { a.remove(i); } } } _ => {} }
                    }
                    variants.push((format!("{} deleted", p.join("/")), r));
                    // duplicate a list element
                    let mut r = root.clone();
                    if let Some(Value::Array(a)) = at(&mut r, parent) { if let Ok(i) = last.parse::<usize>() { if i < a.len() { let c = a[i].clone(); a.insert(i, c); variants.push((format!("{} duplicated", p.join("/")), r)); } } }
                    // alter
                    let orig = { let mut r0 = root.clone(); at(&mut r0, p).map(|x| x.clone()) };
                    if let Some(o) = orig {
                        for alt in alterations(&o) {
                            let mut r = root.clone();
                            if let Some(slot) = at(&mut r, p) { *slot = alt.clone(); }
                            variants.push((format!("{} := {}", p.join("/"), alt), r));
                        }
                    }
                }
                for (what, v) in variants {
                    let text = v.to_string();
                    n_docs += 1;
                    let ok = match *kind {
                        "NamedCal" => catch(|| { let _ = NamedCal::from_json(&text); }).is_some(),
                        "Cal" => catch(|| { let _ = Cal::from_json(&text); }).is_some(),
                        "UnionCal" => catch(|| { let _ = UnionCal::from_json(&text); }).is_some(),
                        _ => catch(|| { if let Ok(f) = FXRates::from_json(&text) { let _ = f.rate(&Ccy::try_new("eur").unwrap(), &Ccy::try_new("usd").unwrap()); } }).is_some(),
                    };
                    if !ok { bad = Some((format!("{}::from_json of a valid document with {}: {}", kind, what, text), "PANIC".to_string())); break 'outer; }
                }
            }
            match bad {
                Some((inp, obs)) => report("case", "jsonmut", &inp, &obs, "a value or an error", false),
                None => report("case", "jsonmut", &format!("{} documents: every single deletion / list duplication / value alteration of five valid documents (NamedCal, two FXRates, Cal, UnionCal)", n_docs), "each loaded to a value or an error", "a value or an error", true),
            }
        }
        // calsweep <tables.json>: for every named calendar, the RUNTIME object returned by get_calendar_by_name must agree with the
        // tables extracted from the sources on every day 1970-01-01..2200-12-31 (Monday-Friday: is_holiday <=> day in table; every day: is_bus_day <=> weekday
        // not in mask and day not in table).  Validates the extraction used by C07 end to end: HashMap wiring, date parsing, Cal::new, week-mask
        // conversion, the DateRoll impl of Cal.  Exhaustive over the range.
        "calsweep" => {
            let path = args.get(2).map(|s| s.as_str()).unwrap_or("");
            let txt = std::fs::read_to_string(path).unwrap_or_default();
            let v: serde_json::Value = serde_json::from_str(&txt).unwrap_or(serde_json::Value::Null);
            let mut evals: u64 = 0;
            let mut bad: Option<String> = None;
            if let Some(obj) = v.as_object() {
                'outer: for (name, t) in obj {
                    let hol: std::collections::HashSet<i64> = t["holidays"].as_array().map(|a| a.iter().filter_map(|x| x.as_i64()).collect()).unwrap_or_default();
                    let mask: Vec<i64> = t["mask"].as_array().map(|a| a.iter().filter_map(|x| x.as_i64()).collect()).unwrap_or_default();
                    let cal = match rateslib::calendars::get_calendar_by_name(name) {
                        Ok(c) => c,
                        Err(_) => { bad = Some(format!("get_calendar_by_name({:?}) is an error but the name is wired in named/mod.rs", name)); break 'outer; }
                    };
                    let mut d = ndt(1970, 1, 1);
                    for z in 0..84371i64 {
                        evals += 1;
                        let wd = (z + 3) % 7;
                        let exp_h = hol.contains(&z);
                        let exp_w = !mask.contains(&wd);
                        // what C07 speaks about: on Monday-Friday `is_holiday` is table membership; on every day `is_bus_day` is
                        // "in the working week and not in the table" (is_holiday on week-end days is not constrained by the property)
                        let bad_h = wd < 5 && cal.is_holiday(&d) != exp_h;
                        let bad_b = cal.is_bus_day(&d) != (exp_w && !exp_h);
                        if bad_h || bad_b {
                            bad = Some(format!("get_calendar_by_name({:?}) on {} (weekday {}): is_holiday = {} (table: {}), is_bus_day = {} (mask and table: {})", name, d.date(), wd, cal.is_holiday(&d), exp_h, cal.is_bus_day(&d), exp_w && !exp_h));
                            break 'outer;
                        }
                        d = d + Days::new(1);
                    }
                }
            } else {
                bad = Some("cannot read the table file".into());
            }
            match bad {
                Some(b) => report("case", "calsweep", &b, "runtime object disagrees with the source tables", "agreement on every day 1970-2200", false),
                None => println!("{{\"case\":\"calsweep\",\"holds\":true,\"evaluations\":{}}}", evals),
            }
        }
        // replay of a calendar query: calq <name> <yyyy-mm-dd>
        "calq" => {
            let name = args.get(2).map(|s| s.as_str()).unwrap_or("");
            let ds = args.get(3).map(|s| s.as_str()).unwrap_or("1970-01-01");
            let p: Vec<i32> = ds.split('-').map(|x| x.parse().unwrap_or(1)).collect();
            let d = ndt(p[0], p[1] as u32, p[2] as u32);
            match rateslib::calendars::get_calendar_by_name(name) {
                Ok(cal) => println!("{{\"calendar\":\"{}\",\"date\":\"{}\",\"is_holiday\":{},\"is_bus_day\":{}}}", name, ds, cal.is_holiday(&d), cal.is_bus_day(&d)),
                Err(_) => println!("{{\"calendar\":\"{}\",\"error\":\"name does not resolve\"}}", name),
            }
        }
        "probe" => {
            let func = args.get(2).map(|s| s.as_str()).unwrap_or("");
            let found = probe_ctor::probe(func) || probe_dateroll(func) || probe_months(func) || probe_dual::probe(func) || probe_curves::probe(func) || probe_calendars::probe(func) || probe_linalg::probe(func) || probe_fx::probe(func) || probe_splines::probe(func);
            if !found {
                println!(
                    "{{\"probe\":\"{}\",\"result\":\"no failing input found\",\"evaluations\":{},\"cases\":{},\"sample\":\"{}\"}}",
                    func,
                    EVALS.load(std::sync::atomic::Ordering::Relaxed),
                    CASES.load(std::sync::atomic::Ordering::Relaxed),
                    js(&SAMPLE.lock().unwrap())
                );
            }
        }
        _ => {
            eprintln!("unknown case");
            std::process::exit(2);
        }
    }
}
