//! Probe search for the B-spline basis (C14) and the solved spline (C15).  Oracles written from the property text:
//!  * basis: piecewise polynomials of the Cox-de Boor recursion evaluated from the right (from the left at the right end
//!    point) by an independent implementation that works on the knot interval containing x; non-negative, local support,
//!    partition of unity; derivatives by de Boor's formula, zero for m >= k;
//!  * solved spline: passes through interior data, meets the end derivative conditions, reproduces polynomials of degree
//!    < k (value and derivatives), sensitivities to dual data equal the spline of the unit data.
//! Replay aid / bounded stand-in only.
use crate::report;
use rateslib::dual::{Dual, Dual2, Gradient1, Gradient2};
use rateslib::splines::{bspldnev_single_f64, bsplev_single_f64, PPSpline};

fn close(a: f64, b: f64) -> bool {
    (a - b).abs() <= 1e-9 * (1.0 + a.abs().max(b.abs()))
}

/// knot interval index mu with t[mu] <= x < t[mu+1] (for x == t_last: the last non-empty interval, "from the left")
fn interval(t: &[f64], x: f64) -> usize {
    let last = t.len() - 1;
    if x >= t[last] {
        let mut mu = last - 1;
        while t[mu] == t[mu + 1] {
            mu -= 1;
        }
        return mu;
    }
    let mut mu = 0;
    for j in 0..last {
        if t[j] <= x && x < t[j + 1] {
            mu = j;
        }
    }
    mu
}

/// value of B_{i,k} on the polynomial piece of interval mu, evaluated at x (Cox-de Boor with 0/0 := 0)
fn piece(t: &[f64], i: usize, k: usize, mu: usize, x: f64) -> f64 {
    if k == 1 {
        return if i == mu { 1.0 } else { 0.0 };
    }
    let mut v = 0.0;
    if t[i + k - 1] != t[i] {
        v += (x - t[i]) / (t[i + k - 1] - t[i]) * piece(t, i, k - 1, mu, x);
    }
    if t[i + k] != t[i + 1] {
        v += (t[i + k] - x) / (t[i + k] - t[i + 1]) * piece(t, i + 1, k - 1, mu, x);
    }
    v
}

/// m-th derivative of the piece (de Boor)
fn dpiece(t: &[f64], i: usize, k: usize, mu: usize, x: f64, m: usize) -> f64 {
    if m == 0 {
        return piece(t, i, k, mu, x);
    }
    if k == 1 || m >= k {
        return 0.0;
    }
    let mut v = 0.0;
    if t[i + k - 1] != t[i] {
        v += dpiece(t, i, k - 1, mu, x, m - 1) / (t[i + k - 1] - t[i]);
    }
    if t[i + k] != t[i + 1] {
        v -= dpiece(t, i + 1, k - 1, mu, x, m - 1) / (t[i + k] - t[i + 1]);
    }
    v * (k - 1) as f64
}

fn knot_sets(k: usize) -> Vec<Vec<f64>> {
    let mut out = vec![];
    let interiors: Vec<Vec<f64>> = vec![vec![], vec![2.0], vec![1.5, 3.0], vec![1.0, 2.0, 2.0, 4.5], vec![2.0, 2.0, 2.0, 3.5, 3.5], vec![0.5, 1.0, 1.5, 2.5, 4.0, 4.75]];
    for int in interiors {
        // multiplicity of interior knots at most k-1
        let mut ok = true;
        for v in &int {
            if int.iter().filter(|w| *w == v).count() > k.saturating_sub(1).max(1) && k > 1 {
                ok = false;
            }
            if k == 1 && int.iter().filter(|w| *w == v).count() > 1 {
                ok = false;
            }
        }
        if !ok {
            continue;
        }
        let mut t = vec![0.0; k];
        t.extend(int.iter().cloned());
        t.extend(vec![5.0; k]);
        out.push(t);
    }
    out
}

fn probe_basis(func: &str) -> bool {
    for k in 1..=6usize {
        for t in knot_sets(k) {
            let n = t.len() - k;
            let mut xs: Vec<f64> = t.clone();
            for w in t.windows(2) {
                if w[1] > w[0] {
                    xs.push(0.5 * (w[0] + w[1]));
                    xs.push(w[0] + 0.1 * (w[1] - w[0]));
                }
            }
            for x in xs {
                let mu = interval(&t, x);
                let mut sum = 0.0;
                for i in 0..n {
                    crate::EVALS.fetch_add(1, std::sync::atomic::Ordering::Relaxed);
                    let got = bsplev_single_f64(&x, i, &k, &t, None);
                    let exp = piece(&t, i, k, mu, x);
                    if !close(got, exp) {
                        report("probe", func, &format!("bsplev_single_f64(x={}, i={}, k={}, t={:?})", x, i, k, t), &format!("{}", got), &format!("{}", exp), false);
                        return true;
                    }
                    if got < -1e-12 || ((x < t[i] || x > t[i + k]) && got.abs() > 1e-12) {
                        report("probe", func, &format!("bsplev_single_f64(x={}, i={}, k={}, t={:?}): non-negative and zero outside [t_i, t_i+k]", x, i, k, t), &format!("{}", got), ">= 0 / 0", false);
                        return true;
                    }
                    sum += got;
                    for m in 0..=k {
                        let gd = bspldnev_single_f64(&x, i, &k, &t, m, None);
                        let ed = dpiece(&t, i, k, mu, x, m);
                        if !close(gd, ed) {
                            report("probe", func, &format!("bspldnev_single_f64(x={}, i={}, k={}, t={:?}, m={})", x, i, k, t, m), &format!("{}", gd), &format!("{}", ed), false);
                            return true;
                        }
                    }
                }
                if !close(sum, 1.0) {
                    report("probe", func, &format!("sum over i of bsplev_single_f64(x={}, i, k={}, t={:?})", x, k, t), &format!("{}", sum), "1", false);
                    return true;
                }
            }
        }
    }
    false
}

fn probe_solve(func: &str) -> bool {
    // order k, interior knots; sites: natural-spline layout (end sites repeated with 2nd derivative conditions) for k = 4,
    // plain interpolation at the Greville-like sites otherwise
    for k in 2..=5usize {
        for int in [vec![], vec![2.0], vec![1.5, 3.0], vec![1.0, 2.0, 4.0]] {
            let mut t = vec![0.0; k];
            t.extend(int.iter().cloned());
            t.extend(vec![5.0; k]);
            let n = t.len() - k;
            // sites: averages of k-1 consecutive knots (Greville abscissae): admissible (Schoenberg-Whitney)
            let mut tau: Vec<f64> = (0..n).map(|i| (1..k).map(|j| t[i + j]).sum::<f64>() / (k - 1) as f64).collect();
            let (mut left_n, mut right_n) = (0usize, 0usize);
            if k == 4 && n >= 4 {
                // natural layout: first and last site repeated, second derivative conditions at the ends
                tau = vec![0.0];
                tau.extend((0..(n - 2)).map(|i| 5.0 * i as f64 / (n - 3) as f64));
                tau.push(5.0);
                left_n = 2;
                right_n = 2;
            }
            // data from a polynomial of degree k-1
            let coef: Vec<f64> = (0..k).map(|j| 1.0 + 0.5 * j as f64 * if j % 2 == 0 { 1.0 } else { -1.0 }).collect();
            let poly = |x: f64, m: usize| -> f64 {
                let mut v = 0.0;
                for (j, c) in coef.iter().enumerate() {
                    if j >= m {
                        let mut f = 1.0;
                        for q in 0..m {
                            f *= (j - q) as f64;
                        }
                        v += c * f * x.powi((j - m) as i32);
                    }
                }
                v
            };
            let mut y: Vec<f64> = tau.iter().map(|x| poly(*x, 0)).collect();
            if left_n > 0 {
                y[0] = poly(tau[0], left_n);
                let l = y.len() - 1;
                y[l] = poly(tau[l], right_n);
            }
            let mut s = PPSpline::<f64>::new(k, t.clone(), None);
            crate::CASES.fetch_add(1, std::sync::atomic::Ordering::Relaxed);
            let what = format!("PPSpline(k={}, t={:?}).csolve(tau={:?}, y=data of a degree-{} polynomial, left_n={}, right_n={})", k, t, tau, k - 1, left_n, right_n);
            if s.csolve(&tau, &y, left_n, right_n, false).is_err() {
                report("probe", func, &what, "Err", "Ok", false);
                return true;
            }
            // interpolation conditions
            for (q, x) in tau.iter().enumerate() {
                let m = if q == 0 { left_n } else if q == tau.len() - 1 { right_n } else { 0 };
                let got = s.ppdnev_single(x, m).unwrap();
                if !close(got, y[q]) {
                    report("probe", func, &format!("{}: derivative {} of the spline at site {} ({})", what, m, q, x), &format!("{}", got), &format!("{}", y[q]), false);
                    return true;
                }
            }
            // polynomial reproduction, value and derivatives, everywhere
            for j in 0..=20 {
                let x = 5.0 * j as f64 / 20.0;
                for m in 0..k {
                    let got = s.ppdnev_single(&x, m).unwrap();
                    let exp = poly(x, m);
                    if !((got - exp).abs() <= 1e-7 * (1.0 + exp.abs())) {
                        report("probe", func, &format!("{}: derivative {} at x={} vs the polynomial", what, m, x), &format!("{}", got), &format!("{}", exp), false);
                        return true;
                    }
                }
            }
            // dual-number abscissa: sensitivities are the spline's own first (and second) derivatives, chain rule on x
            for x0 in [0.3, 2.0, 3.7, 5.0] {
                for m in 0..k.min(3) {
                    let d1 = s.ppdnev_single(&x0, m + 1).unwrap();
                    let d2 = s.ppdnev_single(&x0, m + 2).unwrap();
                    let xd = Dual::new(x0, vec!["x".to_string()]);
                    let got = s.ppdnev_single_dual(&xd, m).unwrap();
                    let g = got.gradient1(vec!["x".to_string()])[0];
                    if !close(g, d1) {
                        report("probe", func, &format!("{}: ppdnev_single_dual(x={} tagged x, m={}): d/dx", what, x0, m), &format!("{}", g), &format!("{}", d1), false);
                        return true;
                    }
                    // x = x0 + 2u: first derivative 2 s', second derivative 4 s''
                    let mut xd2 = Dual2::new(x0, vec!["u".to_string()]);
                    xd2 = &xd2 * 2.0 - x0;
                    let got2 = s.ppdnev_single_dual2(&xd2, m).unwrap();
                    let g1 = got2.gradient1(vec!["u".to_string()])[0];
                    let g2 = got2.gradient2(vec!["u".to_string()])[[0, 0]];
                    if !close(g1, 2.0 * d1) || !close(g2, 4.0 * d2) {
                        report("probe", func, &format!("{}: ppdnev_single_dual2(x = {} + 2u, m={}): (d/du, d2/du2)", what, x0, m), &format!("({}, {})", g1, g2), &format!("({}, {})", 2.0 * d1, 4.0 * d2), false);
                        return true;
                    }
                }
            }
            // mismatched site counts
            let mut s2 = PPSpline::<f64>::new(k, t.clone(), None);
            if s2.csolve(&tau[1..], &y[1..], left_n, right_n, false).is_ok() || s2.csolve(&tau, &y[1..], left_n, right_n, false).is_ok() {
                report("probe", func, &format!("{} with one site / one datum removed", what), "Ok", "Err", false);
                return true;
            }
            // every combination of (too few / too many sites) x (least squares allowed or not): Err unless more sites AND least squares
            {
                let mut more_tau = tau.clone();
                let mut more_y = y.clone();
                let extra = 0.5 * (tau[0] + tau[tau.len() - 1]) + 0.0123;
                more_tau.insert(tau.len() / 2, extra);
                more_y.insert(y.len() / 2, 0.0);
                more_tau.sort_by(|a, b| a.partial_cmp(b).unwrap());
                let cases: Vec<(&str, Vec<f64>, Vec<f64>, bool, bool)> = vec![
                    ("one site too few, least squares allowed", tau[1..].to_vec(), y[1..].to_vec(), true, true),
                    ("one site too few, least squares not allowed", tau[1..].to_vec(), y[1..].to_vec(), false, true),
                    ("one site too many, least squares not allowed", more_tau.clone(), more_y.clone(), false, true),
                    ("sites and data of different length, least squares allowed", tau.clone(), y[1..].to_vec(), true, true),
                ];
                for (why, tt, yy, lsq, must_err) in cases {
                    let mut s3 = PPSpline::<f64>::new(k, t.clone(), None);
                    let r = std::panic::catch_unwind(std::panic::AssertUnwindSafe(|| s3.csolve(&tt, &yy, left_n, right_n, lsq).is_err()));
                    match r {
                        Ok(e) if e == must_err => {}
                        Ok(_) => { report("probe", func, &format!("{}: {}", what, why), "Ok", "Err", false); return true; }
                        Err(_) => { report("probe", func, &format!("{}: {}", what, why), "PANIC", "Err", false); return true; }
                    }
                }
            }
            // dual data: sensitivity to datum j == spline solved on the j-th unit vector
            let yd: Vec<Dual> = y.iter().enumerate().map(|(j, v)| Dual::new(*v, vec![format!("y{}", j)])).collect();
            let mut sd = PPSpline::<Dual>::new(k, t.clone(), None);
            if sd.csolve(&tau, &yd, left_n, right_n, false).is_err() {
                report("probe", func, &format!("{} with dual data", what), "Err", "Ok", false);
                return true;
            }
            for j in 0..n {
                let mut unit = vec![0.0; n];
                unit[j] = 1.0;
                let mut su = PPSpline::<f64>::new(k, t.clone(), None);
                su.csolve(&tau, &unit, left_n, right_n, false).unwrap();
                for x in [0.3, 2.0, 4.9] {
                    let g = sd.ppdnev_single(&x, 0).unwrap().gradient1(vec![format!("y{}", j)])[0];
                    let e = su.ppdnev_single(&x, 0).unwrap();
                    if !close(g, e) {
                        report("probe", func, &format!("{} with dual data: d spline({}) / d y{}", what, x, j), &format!("{}", g), &format!("{}", e), false);
                        return true;
                    }
                }
            }
            // dual coefficients AND a dual abscissa together: d/d(abscissa) is the spline's derivative, d/d(datum j) stays the unit-data
            // spline; at second order (Dual2 data) d2/du2 = 4 s'' for x = x0 + 2u and the mixed term d2/(du dy_j) = 2 * (unit-data spline j)'
            {
                let yd2: Vec<Dual2> = y.iter().enumerate().map(|(j, v)| Dual2::new(*v, vec![format!("y{}", j)])).collect();
                let mut sd2 = PPSpline::<Dual2>::new(k, t.clone(), None);
                if sd2.csolve(&tau, &yd2, left_n, right_n, false).is_err() {
                    report("probe", func, &format!("{} with Dual2 data", what), "Err", "Ok", false);
                    return true;
                }
                let mut units: Vec<PPSpline<f64>> = Vec::new();
                for j in 0..n {
                    let mut unit = vec![0.0; n];
                    unit[j] = 1.0;
                    let mut su = PPSpline::<f64>::new(k, t.clone(), None);
                    su.csolve(&tau, &unit, left_n, right_n, false).unwrap();
                    units.push(su);
                }
                for x0 in [0.0, 0.3, 2.0, 3.7, 5.0] {
                    for m in 0..k.min(2) {
                        let d1 = s.ppdnev_single(&x0, m + 1).unwrap();
                        let d2 = s.ppdnev_single(&x0, m + 2).unwrap();
                        // first order
                        let xd = Dual::new(x0, vec!["x".to_string()]);
                        match std::panic::catch_unwind(std::panic::AssertUnwindSafe(|| sd.ppdnev_single_dual(&xd, m))) {
                            Ok(Ok(got)) => {
                                let mut names = vec!["x".to_string()];
                                for j in 0..n { names.push(format!("y{}", j)); }
                                let g = got.gradient1(names.clone());
                                if !close(g[0], d1) {
                                    report("probe", func, &format!("{} with dual data: PPSpline<Dual>::ppdnev_single_dual(x={} tagged x, m={}): d/dx", what, x0, m), &format!("{}", g[0]), &format!("{}", d1), false);
                                    return true;
                                }
                                for j in 0..n {
                                    let e = units[j].ppdnev_single(&x0, m).unwrap();
                                    if !close(g[1 + j], e) {
                                        report("probe", func, &format!("{} with dual data: PPSpline<Dual>::ppdnev_single_dual(x={} tagged x, m={}): d/dy{}", what, x0, m, j), &format!("{}", g[1 + j]), &format!("{}", e), false);
                                        return true;
                                    }
                                }
                            }
                            _ => { report("probe", func, &format!("{} with dual data: PPSpline<Dual>::ppdnev_single_dual(x={}, m={})", what, x0, m), "Err / PANIC", "a value", false); return true; }
                        }
                        // second order
                        let mut xd2 = Dual2::new(x0, vec!["u".to_string()]);
                        xd2 = &xd2 * 2.0 - x0;
                        match std::panic::catch_unwind(std::panic::AssertUnwindSafe(|| sd2.ppdnev_single_dual2(&xd2, m))) {
                            Ok(Ok(got2)) => {
                                let mut names = vec!["u".to_string()];
                                for j in 0..n { names.push(format!("y{}", j)); }
                                let g1 = got2.gradient1(names.clone());
                                let g2 = got2.gradient2(names.clone());
                                if !close(g1[0], 2.0 * d1) || !close(g2[[0, 0]], 4.0 * d2) {
                                    report("probe", func, &format!("{} with Dual2 data: PPSpline<Dual2>::ppdnev_single_dual2(x = {} + 2u, m={}): (d/du, d2/du2)", what, x0, m), &format!("({}, {})", g1[0], g2[[0, 0]]), &format!("({}, {})", 2.0 * d1, 4.0 * d2), false);
                                    return true;
                                }
                                for j in 0..n {
                                    let e0 = units[j].ppdnev_single(&x0, m).unwrap();
                                    let e1 = units[j].ppdnev_single(&x0, m + 1).unwrap();
                                    if !close(g1[1 + j], e0) || !close(g2[[0, 1 + j]], 2.0 * e1) || !close(g2[[1 + j, 0]], 2.0 * e1) {
                                        report("probe", func, &format!("{} with Dual2 data: PPSpline<Dual2>::ppdnev_single_dual2(x = {} + 2u, m={}): (d/dy{j}, d2/du dy{j}, d2/dy{j} du)", what, x0, m, j = j), &format!("({}, {}, {})", g1[1 + j], g2[[0, 1 + j]], g2[[1 + j, 0]]), &format!("({}, {}, {})", e0, 2.0 * e1, 2.0 * e1), false);
                                        return true;
                                    }
                                }
                            }
                            _ => { report("probe", func, &format!("{} with Dual2 data: PPSpline<Dual2>::ppdnev_single_dual2(x={}, m={})", what, x0, m), "Err / PANIC", "a value", false); return true; }
                        }
                    }
                }
            }
        }
    }
    false
}

pub fn probe(func: &str) -> bool {
    std::panic::set_hook(Box::new(|_| {}));
    match func {
        "bsplev_single_f64" | "bspldnev_single_f64" => probe_basis(func) || probe_solve(func),
        "bsplmatrix" | "csolve" | "ppdnev_single" | "ppdnev_single_dual" | "ppdnev_single_dual2" | "bspldnev_single_dual" | "bspldnev_single_dual2" | "bsplev_single_dual" | "bsplev_single_dual2" | "mapped_value" | "dmul11_dual" | "dmul11_dual2" => probe_solve(func) || probe_basis(func),
        _ => false,
    }
}
