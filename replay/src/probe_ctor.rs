//! Probe for the fallible constructors named in C20: each must return an error or a value whose shape invariants hold
//! (a currency is three characters; a pair joins two different currencies; a dual number has one first derivative per
//! distinct variable name and a square matrix of second derivatives), and never abort.  Replay aid / bounded stand-in only.
use crate::report;
use rateslib::dual::{Dual, Dual2, Gradient1, Gradient2, Number, Vars};
use rateslib::fx::rates::{Ccy, FXPair, FXRate};

fn guard<T>(f: impl FnOnce() -> T) -> Option<T> {
    std::panic::catch_unwind(std::panic::AssertUnwindSafe(f)).ok()
}

pub fn probe(func: &str) -> bool {
    if !["try_new", "try_new_from", "new", "new_from", "clone_from"].contains(&func) {
        return false;
    }
    std::panic::set_hook(Box::new(|_| {}));
    // currencies
    for s in ["", "u", "us", "usd", "USD", "UsD", "usdx", "usdxy", "eur"] {
        match guard(|| Ccy::try_new(s).is_ok()) {
            None => { report("probe", func, &format!("Ccy::try_new({:?})", s), "PANIC", "Ok or Err", false); return true; }
            Some(ok) => {
                if ok != (s.len() == 3) {
                    report("probe", func, &format!("Ccy::try_new({:?})", s), if ok { "Ok" } else { "Err" }, if s.len() == 3 { "Ok" } else { "Err (not three characters)" }, false);
                    return true;
                }
            }
        }
    }
    if Ccy::try_new("usd").ok() != Ccy::try_new("USD").ok() {
        report("probe", func, "Ccy::try_new(\"usd\") == Ccy::try_new(\"USD\")", "different", "equal", false);
        return true;
    }
    // pairs and rates
    for (a, b, want) in [("eur", "usd", true), ("usd", "usd", false), ("USD", "usd", false), ("eur", "us", false), ("eurx", "usd", false), ("jpy", "EUR", true)] {
        let got = guard(|| FXPair::try_new(a, b).is_ok());
        let got2 = guard(|| FXRate::try_new(a, b, Number::F64(1.25), None).is_ok());
        if got != Some(want) || got2 != Some(want) {
            report("probe", func, &format!("FXPair::try_new({:?}, {:?}) / FXRate::try_new({:?}, {:?}, 1.25, None)", a, b, a, b), &format!("{:?} / {:?}", got, got2), &format!("{}", if want { "Ok" } else { "Err (same currency or malformed)" }), false);
            return true;
        }
    }
    // dual numbers: vars (with duplicates), gradient of various lengths
    let names = |v: &[&str]| -> Vec<String> { v.iter().map(|s| s.to_string()).collect() };
    for vars in [vec![], vec!["x"], vec!["x", "y"], vec!["x", "x"], vec!["x", "y", "x"]] {
        let mut uniq: Vec<&str> = Vec::new();
        for v in &vars { if !uniq.contains(v) { uniq.push(v); } }
        // the infallible constructors: one unit sensitivity per DISTINCT name, and (second order) a square zero matrix of that size
        {
            let r1 = guard(|| { let d = Dual::new(2.0, names(&vars)); (d.vars().len(), d.dual().to_vec()) });
            let want1 = (uniq.len(), vec![1.0_f64; uniq.len()]);
            if r1 != Some(want1.clone()) {
                report("probe", func, &format!("Dual::new(2.0, {:?}): (number of names, sensitivities)", vars), &format!("{:?}", r1), &format!("{:?}", want1), false);
                return true;
            }
            let r2 = guard(|| { let d = Dual2::new(2.0, names(&vars)); (d.vars().len(), d.dual().to_vec(), d.dual2().dim(), d.dual2().iter().all(|x| *x == 0.0)) });
            let want2 = (uniq.len(), vec![1.0_f64; uniq.len()], (uniq.len(), uniq.len()), true);
            if r2 != Some(want2.clone()) {
                report("probe", func, &format!("Dual2::new(2.0, {:?}): (number of names, sensitivities, shape of the second-derivative matrix, all zero)", vars), &format!("{:?}", r2), &format!("{:?}", want2), false);
                return true;
            }
        }
        for glen in 0..4usize {
            let g: Vec<f64> = (0..glen).map(|i| 1.0 + i as f64).collect();
            let want_ok = glen == 0 || glen == uniq.len();
            match guard(|| Dual::try_new(2.0, names(&vars), g.clone())) {
                None => { report("probe", func, &format!("Dual::try_new(2.0, {:?}, {:?})", vars, g), "PANIC", "Ok or Err", false); return true; }
                Some(r) => {
                    if r.is_ok() != want_ok {
                        report("probe", func, &format!("Dual::try_new(2.0, {:?}, {:?})", vars, g), if r.is_ok() { "Ok" } else { "Err" }, if want_ok { "Ok" } else { "Err (gradient length differs from the number of distinct names)" }, false);
                        return true;
                    }
                    if let Ok(d) = r {
                        let n = d.vars().len();
                        let read = guard(|| d.gradient1(names(&uniq)).len());
                        if n != uniq.len() || read != Some(uniq.len()) {
                            report("probe", func, &format!("Dual::try_new(2.0, {:?}, {:?}): shape", vars, g), &format!("{} names, read-back {:?}", n, read), &format!("{} names", uniq.len()), false);
                            return true;
                        }
                    }
                }
            }
            for hlen in [0usize, glen * glen, glen * glen + 1] {
                let h: Vec<f64> = (0..hlen).map(|i| i as f64).collect();
                let want2 = want_ok && (hlen == 0 || hlen == uniq.len() * uniq.len());
                match guard(|| Dual2::try_new(2.0, names(&vars), g.clone(), h.clone())) {
                    None => { report("probe", func, &format!("Dual2::try_new(2.0, {:?}, {:?}, {} second derivatives)", vars, g, hlen), "PANIC", "Ok or Err", false); return true; }
                    Some(r) => {
                        if r.is_ok() != want2 {
                            report("probe", func, &format!("Dual2::try_new(2.0, {:?}, {:?}, {} second derivatives)", vars, g, hlen), if r.is_ok() { "Ok" } else { "Err" }, if want2 { "Ok" } else { "Err (lengths do not fit the number of distinct names)" }, false);
                            return true;
                        }
                        if let Ok(d) = r {
                            let read = guard(|| d.gradient2(names(&uniq)).dim());
                            if d.vars().len() != uniq.len() || read != Some((uniq.len(), uniq.len())) {
                                report("probe", func, &format!("Dual2::try_new(2.0, {:?}, {:?}, {} second derivatives): shape", vars, g, hlen), &format!("{} names, second derivatives {:?}", d.vars().len(), read), &format!("{0} names, {0} x {0}", uniq.len()), false);
                                return true;
                            }
                        }
                    }
                }
            }
        }
    }
    false
}
