//! Probe search for the linear solver (C13): real `dsolve` / `fdsolve` on small systems of Dual / Dual2 / f64 numbers;
//! the oracle is the property itself: the residual A.x - b must vanish in value and in every first (and second)
//! derivative.  Systems are enumerated over a small alphabet that includes entries of value 0 that carry a derivative,
//! zero diagonals (forcing row swaps) and tall systems for the least-squares mode.  Replay aid / bounded stand-in only.
use crate::report;
use ndarray::{Array1, Array2};
use rateslib::dual::linalg::{dmul21_, dmul22_, dsolve, fdsolve};
use rateslib::dual::{Dual, Dual2, Gradient1, Gradient2, Vars};

const TOL: f64 = 1e-9;

fn alphabet(tag: &str) -> Vec<Dual> {
    vec![
        Dual::new(0.0, vec![]),
        Dual::new(1.0, vec![]),
        Dual::new(0.0, vec![tag.to_string()]),
        Dual::new(2.0, vec![tag.to_string()]),
        Dual::new(-3.0, vec![]),
    ]
}

fn det(m: &Array2<f64>) -> f64 {
    let n = m.nrows();
    if n == 1 {
        return m[[0, 0]];
    }
    if n == 2 {
        return m[[0, 0]] * m[[1, 1]] - m[[0, 1]] * m[[1, 0]];
    }
    m[[0, 0]] * (m[[1, 1]] * m[[2, 2]] - m[[1, 2]] * m[[2, 1]]) - m[[0, 1]] * (m[[1, 0]] * m[[2, 2]] - m[[1, 2]] * m[[2, 0]])
        + m[[0, 2]] * (m[[1, 0]] * m[[2, 1]] - m[[1, 1]] * m[[2, 0]])
}

fn show(a: &Array2<Dual>, b: &Array1<Dual>) -> String {
    let f = |d: &Dual| -> String {
        let vars: Vec<String> = d.vars().iter().cloned().collect();
        if vars.is_empty() { format!("{}", d.real()) } else { format!("{}+d[{}]", d.real(), vars.join(",")) }
    };
    let rows: Vec<String> = a.rows().into_iter().map(|r| format!("[{}]", r.iter().map(f).collect::<Vec<_>>().join(", "))).collect();
    format!("A = [{}], b = [{}]", rows.join(", "), b.iter().map(f).collect::<Vec<_>>().join(", "))
}

/// reference products written with explicit loops (independent of dmul21_ / dmul22_)
fn mv(a: &Array2<Dual>, x: &Array1<Dual>) -> Array1<Dual> {
    Array1::from_vec((0..a.nrows()).map(|i| (0..a.ncols()).fold(Dual::new(0.0, vec![]), |acc, j| &acc + &(&a[[i, j]] * &x[j]))).collect())
}
fn mm(a: &Array2<Dual>, b: &Array2<Dual>) -> Array2<Dual> {
    let mut v = Vec::new();
    for i in 0..a.nrows() {
        for j in 0..b.ncols() {
            v.push((0..a.ncols()).fold(Dual::new(0.0, vec![]), |acc, k| &acc + &(&a[[i, k]] * &b[[k, j]])));
        }
    }
    Array2::from_shape_vec((a.nrows(), b.ncols()), v).unwrap()
}

fn close_dual(x: &Dual, y: &Dual) -> bool {
    let r = x - y;
    let mut vars: Vec<String> = x.vars().iter().cloned().collect();
    for v in y.vars().iter() {
        if !vars.contains(v) {
            vars.push(v.clone());
        }
    }
    r.real().abs() < TOL && (vars.is_empty() || r.gradient1(vars).iter().all(|g| g.abs() < TOL))
}

fn probe_mul(func: &str) -> bool {
    let d = |r: f64, v: &str| if v.is_empty() { Dual::new(r, vec![]) } else { Dual::new(r, vec![v.to_string()]) };
    let a = Array2::from_shape_vec((2, 3), vec![d(1.0, "p"), d(2.0, ""), d(-1.0, ""), d(0.5, ""), d(0.0, "q"), d(3.0, "")]).unwrap();
    let b = Array2::from_shape_vec((3, 4), (0..12).map(|k| d(k as f64 * 0.5 - 2.0, if k % 5 == 0 { "r" } else { "" })).collect()).unwrap();
    let x = Array1::from_vec(vec![d(1.0, "s"), d(-2.0, ""), d(0.25, "p")]);
    let got = std::panic::catch_unwind(std::panic::AssertUnwindSafe(|| dmul22_(&a.view(), &b.view())));
    let exp = mm(&a, &b);
    match got {
        Ok(g) if g.dim() == exp.dim() && g.iter().zip(exp.iter()).all(|(u, v)| close_dual(u, v)) => {}
        Ok(g) => {
            report("probe", func, "dmul22_ on a 2x3 times a 3x4 matrix of dual numbers vs the triple loop", &format!("shape {:?}, values {:?}", g.dim(), g.map(|z| z.real())), &format!("shape {:?}, values {:?}", exp.dim(), exp.map(|z| z.real())), false);
            return true;
        }
        Err(_) => {
            report("probe", func, "dmul22_ on a 2x3 times a 3x4 matrix of dual numbers", "PANIC", "the 2x4 product", false);
            return true;
        }
    }
    let got = std::panic::catch_unwind(std::panic::AssertUnwindSafe(|| dmul21_(&a.view(), &x.view())));
    let exp = mv(&a, &x);
    match got {
        Ok(g) if g.len() == exp.len() && g.iter().zip(exp.iter()).all(|(u, v)| close_dual(u, v)) => {}
        Ok(g) => {
            report("probe", func, "dmul21_ on a 2x3 matrix times a 3-vector of dual numbers vs the double loop", &format!("{:?}", g.map(|z| z.real())), &format!("{:?}", exp.map(|z| z.real())), false);
            return true;
        }
        Err(_) => {
            report("probe", func, "dmul21_ on a 2x3 matrix times a 3-vector of dual numbers", "PANIC", "the product", false);
            return true;
        }
    }
    false
}

fn check_dual(func: &str, a: &Array2<Dual>, b: &Array1<Dual>, lsq: bool) -> bool {
    crate::CASES.fetch_add(1, std::sync::atomic::Ordering::Relaxed);
    let x = match std::panic::catch_unwind(std::panic::AssertUnwindSafe(|| dsolve(&a.view(), &b.view(), lsq))) {
        Ok(x) => x,
        Err(_) => {
            report("probe", func, &format!("dsolve(allow_lsq={}) on {}", lsq, show(a, b)), "PANIC", "a solution x with A.x = b", false);
            return true;
        }
    };
    // the system whose residual must vanish: A x = b, or the normal equations A^T A x = A^T b
    let (aa, bb) = if lsq { (mm(&a.t().to_owned(), a), mv(&a.t().to_owned(), b)) } else { (a.clone(), b.clone()) };
    let ax = mv(&aa, &x);
    let mut vars: Vec<String> = Vec::new();
    for d in a.iter().chain(b.iter()) {
        for v in d.vars().iter() {
            if !vars.contains(v) {
                vars.push(v.clone());
            }
        }
    }
    for i in 0..bb.len() {
        let r = &ax[i] - &bb[i];
        if !(r.real().abs() < TOL) {
            report("probe", func, &format!("dsolve(allow_lsq={}) on {}: value of (A.x - b)[{}]", lsq, show(a, b), i), &format!("{}", r.real()), "0", false);
            return true;
        }
        if !vars.is_empty() {
            let g = r.gradient1(vars.clone());
            for (k, gk) in g.iter().enumerate() {
                if !(gk.abs() < TOL) {
                    report("probe", func, &format!("dsolve(allow_lsq={}) on {}: d(A.x - b)[{}] / d{}", lsq, show(a, b), i, vars[k]), &format!("{}", gk), "0", false);
                    return true;
                }
            }
        }
    }
    false
}

fn probe_dual(func: &str) -> bool {
    // 2x2: every matrix over the alphabet (one tag per position), two right-hand sides
    let n = 2usize;
    let alpha: Vec<Vec<Dual>> = (0..n * n).map(|p| alphabet(&format!("a{}{}", p / n, p % n))).collect();
    let k = alpha[0].len();
    for code in 0..k.pow((n * n) as u32) {
        let mut c = code;
        let mut ent = Vec::new();
        for p in 0..n * n {
            ent.push(alpha[p][c % k].clone());
            c /= k;
        }
        let a = Array2::from_shape_vec((n, n), ent).unwrap();
        let re = a.map(|d| d.real());
        if det(&re).abs() < 0.5 {
            continue;
        }
        for b in [
            Array1::from_vec(vec![Dual::new(1.0, vec![]), Dual::new(1.0, vec![])]),
            Array1::from_vec(vec![Dual::new(1.0, vec!["r".to_string()]), Dual::new(-2.0, vec![])]),
        ] {
            if check_dual(func, &a, &b, false) {
                return true;
            }
        }
    }
    // 3x3: lower-left entries from the alphabet, fixed well-conditioned rest, zero on the diagonal to force swaps
    let al = alphabet("z");
    for i in 0..al.len() {
        for j in 0..al.len() {
            for l in 0..al.len() {
                for diag0 in [0.0, 2.0] {
                    let a = Array2::from_shape_vec(
                        (3, 3),
                        vec![
                            Dual::new(diag0, vec!["p".to_string()]), Dual::new(1.0, vec![]), Dual::new(1.0, vec![]),
                            al[i].clone(), Dual::new(2.0, vec!["q".to_string()]), Dual::new(0.0, vec![]),
                            al[j].clone(), al[l].clone(), Dual::new(3.0, vec![]),
                        ],
                    )
                    .unwrap();
                    let re = a.map(|d| d.real());
                    if det(&re).abs() < 0.5 {
                        continue;
                    }
                    let b = Array1::from_vec(vec![Dual::new(1.0, vec!["r".to_string()]), Dual::new(2.0, vec![]), Dual::new(3.0, vec![])]);
                    if check_dual(func, &a, &b, false) {
                        return true;
                    }
                }
            }
        }
    }
    // tall 3x2 systems, least squares
    for i in 0..al.len() {
        for j in 0..al.len() {
            let a = Array2::from_shape_vec(
                (3, 2),
                vec![Dual::new(1.0, vec!["p".to_string()]), al[i].clone(), al[j].clone(), Dual::new(2.0, vec![]), Dual::new(1.0, vec![]), Dual::new(-1.0, vec!["q".to_string()])],
            )
            .unwrap();
            let ata = dmul22_(&a.t(), &a.view()).map(|d| d.real());
            if det(&ata).abs() < 0.5 {
                continue;
            }
            let b = Array1::from_vec(vec![Dual::new(1.0, vec!["r".to_string()]), Dual::new(2.0, vec![]), Dual::new(0.5, vec![])]);
            if check_dual(func, &a, &b, true) {
                return true;
            }
        }
    }
    false
}

fn probe_dual2(func: &str) -> bool {
    // second order: a handful of systems with value-zero entries that carry derivatives
    let d2 = |r: f64, v: &str| if v.is_empty() { Dual2::new(r, vec![]) } else { Dual2::new(r, vec![v.to_string()]) };
    for (z, q) in [(0.0, 2.0), (1.0, 2.0), (0.0, 0.5), (2.0, -1.0)] {
        let a = Array2::from_shape_vec((3, 3), vec![d2(2.0, "p"), d2(1.0, ""), d2(1.0, ""), d2(z, "z"), d2(q, "q"), d2(0.0, ""), d2(1.0, ""), d2(0.0, "w"), d2(3.0, "")]).unwrap();
        let b = Array1::from_vec(vec![d2(1.0, "r"), d2(2.0, ""), d2(3.0, "")]);
        let x = dsolve(&a.view(), &b.view(), false);
        let ax = dmul21_(&a.view(), &x.view());
        let vars: Vec<String> = ["p", "z", "q", "w", "r"].iter().map(|s| s.to_string()).collect();
        for i in 0..3 {
            let r = &ax[i] - &b[i];
            let g1 = r.gradient1(vars.clone());
            let g2 = r.gradient2(vars.clone());
            let worst = g1.iter().chain(g2.iter()).fold(r.real().abs(), |m, v| m.max(v.abs()));
            if !(worst < TOL) {
                report("probe", func, &format!("dsolve on Dual2 3x3 [[2+dp,1,1],[{}+dz,{}+dq,0],[1,0+dw,3]] b=[1+dr,2,3]: largest |value / 1st / 2nd derivative| of (A.x - b)[{}]", z, q, i), &format!("{}", worst), "0", false);
                return true;
            }
        }
    }
    false
}

fn probe_f64(func: &str) -> bool {
    // f64 matrix, Dual right-hand side
    for (m10, m00) in [(0.0, 2.0), (4.0, 0.0), (1.0, 1.0), (0.0, 1.0)] {
        let a = Array2::from_shape_vec((3, 3), vec![m00, 1.0, 1.0, m10, 2.0, 0.0, 1.0, 0.0, 3.0]).unwrap();
        if det(&a).abs() < 0.5 {
            continue;
        }
        let b = Array1::from_vec(vec![Dual::new(1.0, vec!["r".to_string()]), Dual::new(2.0, vec!["s".to_string()]), Dual::new(3.0, vec![])]);
        let x = fdsolve(&a.view(), &b.view(), false);
        let vars: Vec<String> = vec!["r".to_string(), "s".to_string()];
        for i in 0..3 {
            let mut acc = Dual::new(0.0, vec![]);
            for j in 0..3 {
                acc = &acc + &(&x[j] * a[[i, j]]);
            }
            let r = &acc - &b[i];
            let g = r.gradient1(vars.clone());
            let worst = g.iter().fold(r.real().abs(), |m, v| m.max(v.abs()));
            if !(worst < TOL) {
                report("probe", func, &format!("fdsolve on [[{},1,1],[{},2,0],[1,0,3]] b=[1+dr,2+ds,3]: largest |value / derivative| of (A.x - b)[{}]", m00, m10, i), &format!("{}", worst), "0", false);
                return true;
            }
        }
    }
    false
}

fn probe_f64_exhaustive(func: &str) -> bool {
    // every 3x3 matrix with entries in {-1, 0, 1, 2} and |det| >= 1 (exact in f64): residual of fdsolve with an f64 and a Dual
    // right-hand side must vanish (value and derivative).  262144 matrices, ~143000 of them non-singular.
    let alpha = [-1.0f64, 0.0, 1.0, 2.0];
    let bf = Array1::from_vec(vec![1.0f64, -2.0, 3.0]);
    let bd = Array1::from_vec(vec![Dual::new(1.0, vec!["r".to_string()]), Dual::new(-2.0, vec!["s".to_string()]), Dual::new(3.0, vec![])]);
    let vars: Vec<String> = vec!["r".to_string(), "s".to_string()];
    for code in 0..(4usize.pow(9)) {
        let mut c = code;
        let mut ent = [0.0f64; 9];
        for e in ent.iter_mut() {
            *e = alpha[c % 4];
            c /= 4;
        }
        let a = Array2::from_shape_vec((3, 3), ent.to_vec()).unwrap();
        if det(&a).abs() < 0.5 {
            continue;
        }
        crate::CASES.fetch_add(1, std::sync::atomic::Ordering::Relaxed);
        let xf = match std::panic::catch_unwind(std::panic::AssertUnwindSafe(|| fdsolve(&a.view(), &bf.view(), false))) {
            Ok(x) => x,
            Err(_) => {
                report("probe", func, &format!("fdsolve on A = {:?} (row major), b = [1,-2,3]", ent), "PANIC", "a solution", false);
                return true;
            }
        };
        for i in 0..3 {
            let r: f64 = (0..3).map(|j| a[[i, j]] * xf[j]).sum::<f64>() - bf[i];
            if !(r.abs() < 1e-9) {
                report("probe", func, &format!("fdsolve on A = {:?} (row major), b = [1,-2,3]: (A.x - b)[{}]", ent, i), &format!("{}", r), "0", false);
                return true;
            }
        }
        if code % 7 == 0 {
            let xd = fdsolve(&a.view(), &bd.view(), false);
            for i in 0..3 {
                let mut acc = Dual::new(0.0, vec![]);
                for j in 0..3 {
                    acc = &acc + &(&xd[j] * a[[i, j]]);
                }
                let r = &acc - &bd[i];
                let g = r.gradient1(vars.clone());
                let worst = g.iter().fold(r.real().abs(), |m, v| m.max(v.abs()));
                if !(worst < 1e-9) {
                    report("probe", func, &format!("fdsolve on A = {:?} (row major), b = [1+dr,-2+ds,3]: largest |value / derivative| of (A.x - b)[{}]", ent, i), &format!("{}", worst), "0", false);
                    return true;
                }
            }
        }
    }
    false
}

fn probe_f64_lsq(func: &str) -> bool {
    // tall f64 system, Dual right-hand side: the normal equations A^T A x = A^T b must hold in value and derivative
    let a = Array2::from_shape_vec((3, 2), vec![1.0, 2.0, 0.0, 1.0, -1.0, 3.0]).unwrap();
    let b = Array1::from_vec(vec![Dual::new(1.0, vec!["r".to_string()]), Dual::new(2.0, vec!["s".to_string()]), Dual::new(-0.5, vec![])]);
    let x = match std::panic::catch_unwind(std::panic::AssertUnwindSafe(|| fdsolve(&a.view(), &b.view(), true))) {
        Ok(x) => x,
        Err(_) => {
            report("probe", func, "fdsolve(allow_lsq=true) on A=[[1,2],[0,1],[-1,3]] b=[1+dr,2+ds,-0.5]", "PANIC", "the least squares solution", false);
            return true;
        }
    };
    let vars: Vec<String> = vec!["r".to_string(), "s".to_string()];
    for i in 0..2 {
        // (A^T A x)_i - (A^T b)_i
        let mut acc = Dual::new(0.0, vec![]);
        for j in 0..2 {
            let g: f64 = (0..3).map(|k| a[[k, i]] * a[[k, j]]).sum();
            acc = &acc + &(&x[j] * g);
        }
        for k in 0..3 {
            acc = &acc - &(&b[k] * a[[k, i]]);
        }
        let gr = acc.gradient1(vars.clone());
        let worst = gr.iter().fold(acc.real().abs(), |m, v| m.max(v.abs()));
        if !(worst < TOL) {
            report("probe", func, &format!("fdsolve(allow_lsq=true) on A=[[1,2],[0,1],[-1,3]] b=[1+dr,2+ds,-0.5]: largest |value / derivative| of (A^T A x - A^T b)[{}]", i), &format!("{}", worst), "0", false);
            return true;
        }
    }
    false
}

pub fn probe(func: &str) -> bool {
    std::panic::set_hook(Box::new(|_| {}));
    match func {
        "dsolve21_" | "dsolve" | "dsolve_upper21_" | "dmul11_" | "dmul21_" | "dmul22_" | "argabsmax" | "row_swap" | "el_swap" => probe_mul(func) || probe_dual(func) || probe_dual2(func),
        "fdsolve21_" | "fdsolve" | "fdsolve_upper21_" | "fdmul11_" | "fdmul11_f64" | "fdmul11_dual" | "fdmul11_dual2" | "fdmul21_" => probe_f64(func) || probe_f64_lsq(func) || probe_f64_exhaustive(func),
        _ => false,
    }
}
