//! Probe search for the concrete calendars (C06): real UnionCal / NamedCal / PartialEq against oracles written from the
//! property statement (business day in every member; settlement day = business day in every settlement calendar; a name
//! is the explicit union of its parts; equality = agreement on every day 1970-2200).  Replay aid only.
use crate::report;
use chrono::{Days, NaiveDateTime};
use rateslib::calendars::{get_calendar_by_name, ndt, Cal, DateRoll, NamedCal, UnionCal};

fn bus<C: DateRoll>(c: &C, d: &NaiveDateTime) -> bool {
    c.is_weekday(d) && !c.is_holiday(d)
}

fn fixtures() -> Vec<Cal> {
    vec![
        Cal::new(vec![ndt(2015, 9, 7), ndt(2015, 9, 9)], vec![5, 6]),
        Cal::new(vec![ndt(2015, 9, 8)], vec![4, 5]),
        Cal::new(vec![ndt(2015, 9, 10), ndt(2015, 9, 5)], vec![5, 6]),
        Cal::new(vec![], vec![]),
    ]
}

fn selections(n: usize, max_len: usize) -> Vec<Vec<usize>> {
    // every ordered selection without repetition of length 1..=max_len
    let mut out: Vec<Vec<usize>> = Vec::new();
    let mut cur: Vec<Vec<usize>> = vec![vec![]];
    for _ in 0..max_len {
        let mut nxt = Vec::new();
        for s in &cur {
            for i in 0..n {
                if !s.contains(&i) {
                    let mut t = s.clone();
                    t.push(i);
                    nxt.push(t);
                }
            }
        }
        out.extend(nxt.iter().cloned());
        cur = nxt;
    }
    out
}

fn agree<A: DateRoll, B: DateRoll>(a: &A, b: &B) -> bool {
    let mut d = ndt(1970, 1, 1);
    let end = ndt(2200, 12, 31);
    while d <= end {
        if bus(a, &d) != bus(b, &d) || a.is_settlement(&d) != b.is_settlement(&d) {
            return false;
        }
        d = d + Days::new(1);
    }
    true
}

fn probe_union(func: &str) -> bool {
    let fx = fixtures();
    let mut settles: Vec<Option<Vec<usize>>> = vec![None, Some(vec![])];
    for s in selections(fx.len(), 2) {
        settles.push(Some(s));
    }
    for mem in selections(fx.len(), 3) {
        for st in &settles {
            let u = UnionCal::new(mem.iter().map(|i| fx[*i].clone()).collect(), st.as_ref().map(|v| v.iter().map(|i| fx[*i].clone()).collect()));
            for k in 0..21u64 {
                let d = ndt(2015, 9, 1) + Days::new(k);
                let exp_bus = mem.iter().all(|i| bus(&fx[*i], &d));
                let exp_set = match st { None => true, Some(v) => v.iter().all(|i| bus(&fx[*i], &d)) };
                if u.is_bus_day(&d) != exp_bus {
                    report("probe", func, &format!("UnionCal(members = fixtures {:?}, settlement = {:?}).is_bus_day({})  [fixtures: 0 = hol 7,9 Sep 2015 mask Sat/Sun; 1 = hol 8 Sep mask Fri/Sat; 2 = hol 5,10 Sep mask Sat/Sun; 3 = no holidays, no mask]", mem, st, d.date()), &u.is_bus_day(&d).to_string(), &exp_bus.to_string(), false);
                    return true;
                }
                if u.is_settlement(&d) != exp_set {
                    report("probe", func, &format!("UnionCal(members = fixtures {:?}, settlement = {:?}).is_settlement({})  [fixtures: 0 = hol 7,9 Sep 2015 mask Sat/Sun; 1 = hol 8 Sep mask Fri/Sat; 2 = hol 5,10 Sep mask Sat/Sun; 3 = no holidays, no mask]", mem, st, d.date()), &u.is_settlement(&d).to_string(), &exp_set.to_string(), false);
                    return true;
                }
            }
        }
    }
    false
}

fn explicit(name: &str) -> Option<UnionCal> {
    let low = name.to_lowercase();
    let parts: Vec<&str> = low.split('|').collect();
    if parts.len() > 2 {
        return None;
    }
    let look = |s: &str| -> Option<Vec<Cal>> { s.split(',').map(|n| get_calendar_by_name(n).ok()).collect() };
    let mem = look(parts[0])?;
    let st = if parts.len() == 2 { Some(look(parts[1])?) } else { None };
    Some(UnionCal::new(mem, st))
}

fn probe_named(func: &str) -> bool {
    for name in ["tgt,ldn|fed", "TGT,LDN|FED", "ldn,tgt", "nyc", "tgt|nyc,ldn", "stk,osl,zur|tgt,ldn", "Tgt,lDn|nyc|fed", "tgt,xyz", "tgt|xyz", "tgt||fed", "mum,syd|wlg,tyo,tro"] {
        let exp = explicit(name);
        let got = NamedCal::try_new(name).ok();
        match (&exp, &got) {
            (None, None) => {}
            (Some(_), None) => {
                report("probe", func, &format!("NamedCal::try_new({:?})", name), "Err", "Ok", false);
                return true;
            }
            (None, Some(_)) => {
                report("probe", func, &format!("NamedCal::try_new({:?})", name), "Ok", "Err", false);
                return true;
            }
            (Some(u), Some(n)) => {
                let mut d = ndt(1970, 1, 1);
                let end = ndt(2200, 12, 31);
                while d <= end {
                    if bus(u, &d) != bus(n, &d) {
                        report("probe", func, &format!("NamedCal::try_new({:?}).is_bus_day({}) vs the explicit union of the named parts", name, d.date()), &bus(n, &d).to_string(), &bus(u, &d).to_string(), false);
                        return true;
                    }
                    if u.is_settlement(&d) != n.is_settlement(&d) {
                        report("probe", func, &format!("NamedCal::try_new({:?}).is_settlement({}) vs the explicit union of the named parts", name, d.date()), &n.is_settlement(&d).to_string(), &u.is_settlement(&d).to_string(), false);
                        return true;
                    }
                    d = d + Days::new(1);
                }
            }
        }
    }
    false
}

fn probe_eq(func: &str) -> bool {
    let fx = fixtures();
    let base = Cal::new(vec![ndt(2015, 9, 7)], vec![5, 6]);
    let late = Cal::new(vec![ndt(2015, 9, 7), ndt(2200, 12, 31)], vec![5, 6]); // differs on the very last day only (a Wednesday)
    let early = Cal::new(vec![ndt(2015, 9, 7), ndt(1970, 1, 1)], vec![5, 6]); // differs on the very first day only (a Thursday)
    // calendars that differ from `base` only on base's weekend days (week mask), and one that differs on Fridays only
    let no_weekend = Cal::new(vec![ndt(2015, 9, 7)], vec![]);
    let long_weekend = Cal::new(vec![ndt(2015, 9, 7)], vec![4, 5, 6]);
    let sunday_only = Cal::new(vec![ndt(2015, 9, 7)], vec![6]);
    let cals = vec![("base", base.clone()), ("base+2200-12-31", late), ("base+1970-01-01", early), ("fixture1", fx[1].clone()),
                    ("base without weekend", no_weekend), ("base with Fri-Sat-Sun weekend", long_weekend), ("base with Sunday-only weekend", sunday_only)];
    let mut unions: Vec<(String, UnionCal)> = Vec::new();
    for (n, c) in &cals {
        unions.push((format!("Union([{}])", n), UnionCal::new(vec![c.clone()], None)));
    }
    unions.push(("Union([base] | [fixture1])".into(), UnionCal::new(vec![base.clone()], Some(vec![fx[1].clone()]))));
    unions.push(("Union([base, base])".into(), UnionCal::new(vec![base.clone(), base.clone()], None)));
    unions.push(("Union([base] | [])".into(), UnionCal::new(vec![base.clone()], Some(vec![]))));
    unions.push(("Union([base] | [base])".into(), UnionCal::new(vec![base.clone()], Some(vec![base.clone()]))));   // differs from Union([base]) in is_settlement on weekends only
    for (na, a) in &unions {
        for (nb, b) in &unions {
            let exp = agree(a, b);
            let got = a == b;
            if got != exp {
                report("probe", func, &format!("{} == {}", na, nb), &got.to_string(), &exp.to_string(), false);
                return true;
            }
        }
        for (nc, c) in &cals {
            let exp = agree(a, c);
            if (a == c) != exp {
                report("probe", func, &format!("{} == Cal {}", na, nc), &(a == c).to_string(), &exp.to_string(), false);
                return true;
            }
            if (c == a) != exp {
                report("probe", func, &format!("Cal {} == {}", nc, na), &(c == a).to_string(), &exp.to_string(), false);
                return true;
            }
        }
    }
    {
        // "bus" (Mon-Fri, no holidays) and "all" (every day) differ on Saturdays and Sundays only
        let nb = NamedCal::try_new("bus").unwrap();
        let all = get_calendar_by_name("all").unwrap();
        let exp = agree(&nb, &all);
        if (nb == all) != exp || (all == nb) != exp {
            report("probe", func, "NamedCal(\"bus\") == Cal all (both directions)", &format!("{} / {}", nb == all, all == nb), &exp.to_string(), false);
            return true;
        }
    }
    for name in ["tgt,ldn|fed", "ldn,tgt|fed", "tgt", "tgt|tgt", "nyc", "fed"] {
        let n = NamedCal::try_new(name).unwrap();
        for other in ["tgt,ldn|fed", "ldn,tgt|fed", "tgt", "nyc", "fed", "tgt,ldn"] {
            let u = explicit(other).unwrap();
            let exp = agree(&n, &u);
            if (n == u) != exp {
                report("probe", func, &format!("NamedCal({:?}) == explicit union of {:?}", name, other), &(n == u).to_string(), &exp.to_string(), false);
                return true;
            }
        }
        let c = get_calendar_by_name("tgt").unwrap();
        let exp = agree(&n, &c);
        if (n == c) != exp || (c == n) != exp {
            report("probe", func, &format!("NamedCal({:?}) == Cal tgt (both directions)", name), &format!("{} / {}", n == c, c == n), &exp.to_string(), false);
            return true;
        }
    }
    false
}

/// Cal::new stores exactly the given holidays and week mask: every given date is a holiday (whatever its year, weekday or
/// position in the list, duplicates allowed), no other date of 1970-2200 is, and the non-working week days are exactly
/// the mask
fn probe_cal_new(func: &str) -> bool {
    let hol_sets: Vec<Vec<NaiveDateTime>> = vec![
        vec![],
        vec![ndt(1970, 1, 1), ndt(2200, 12, 31)],
        vec![ndt(2200, 6, 3), ndt(2200, 1, 1), ndt(2199, 12, 31), ndt(1970, 1, 2), ndt(1999, 12, 31), ndt(2000, 2, 29)],
        vec![ndt(2015, 9, 7), ndt(2015, 9, 7), ndt(2015, 9, 5), ndt(2100, 2, 28), ndt(2038, 1, 19), ndt(2038, 1, 20)],
        vec![ndt(1969, 12, 31), ndt(2201, 1, 1), ndt(2024, 2, 29), ndt(1972, 2, 29)],
    ];
    let masks: Vec<Vec<u8>> = vec![vec![], vec![5, 6], vec![4, 5], vec![0], vec![6, 6, 2], vec![0, 1, 2, 3, 4, 5, 6]];
    for hs in &hol_sets {
        for m in &masks {
            let c = match std::panic::catch_unwind(|| Cal::new(hs.clone(), m.clone())) {
                Ok(c) => c,
                Err(_) => { report("probe", func, &format!("Cal::new({:?}, {:?})", hs, m), "PANIC", "a calendar", false); return true; }
            };
            for h in hs {
                if !c.is_holiday(h) {
                    report("probe", func, &format!("Cal::new(holidays = {:?}, week_mask = {:?}).is_holiday({})", hs.iter().map(|d| d.date().to_string()).collect::<Vec<_>>(), m, h.date()), "false", "true (it is in the given list)", false);
                    return true;
                }
            }
            let mut d = ndt(1970, 1, 1);
            let end = ndt(2200, 12, 31);
            while d <= end {
                use chrono::Datelike;
                let exp_h = hs.contains(&d);
                let exp_w = !m.contains(&(d.weekday().num_days_from_monday() as u8));
                if c.is_holiday(&d) != exp_h || c.is_weekday(&d) != exp_w {
                    report("probe", func, &format!("Cal::new(holidays = {:?}, week_mask = {:?}) at {}: (is_holiday, is_weekday)", hs.iter().map(|d| d.date().to_string()).collect::<Vec<_>>(), m, d.date()), &format!("({}, {})", c.is_holiday(&d), c.is_weekday(&d)), &format!("({}, {})", exp_h, exp_w), false);
                    return true;
                }
                d = d + Days::new(1);
            }
        }
    }
    false
}

/// save / load round trip of a named calendar: the loaded calendar carries the same name, answers every day 1970-2200 alike and
/// re-serialises to the same document
fn probe_named_roundtrip(func: &str) -> bool {
    use rateslib::json::JSON;
    for name in ["tgt,ldn|fed", "TGT,LDN|FED", "ldn,tgt", "nyc", "tgt|nyc,ldn", "stk,osl,zur|tgt,ldn", "all", "bus", "mum,syd|wlg,tyo,tro"] {
        let what = format!("NamedCal::try_new({:?}) -> to_json -> from_json", name);
        let cal = match NamedCal::try_new(name) { Ok(c) => c, Err(_) => { report("probe", func, &what, "Err at construction", "Ok", false); return true; } };
        let doc = match cal.to_json() { Ok(d) => d, Err(_) => { report("probe", func, &what, "to_json failed", "a document", false); return true; } };
        let back = match std::panic::catch_unwind(|| NamedCal::from_json(&doc)) {
            Ok(Ok(b)) => b,
            Ok(Err(_)) => { report("probe", func, &what, "Err on loading", "the calendar that was saved", false); return true; }
            Err(_) => { report("probe", func, &what, "PANIC on loading", "the calendar that was saved", false); return true; }
        };
        let doc2 = back.to_json().unwrap_or_default();
        if doc2 != doc {
            report("probe", func, &what, &format!("re-serialises as {}", doc2), &doc, false);
            return true;
        }
        let mut d = ndt(1970, 1, 1);
        let end = ndt(2200, 12, 31);
        while d <= end {
            if bus(&cal, &d) != bus(&back, &d) || cal.is_settlement(&d) != back.is_settlement(&d) {
                report("probe", func, &format!("{}: (is_bus_day, is_settlement)({})", what, d.date()), &format!("({}, {})", bus(&back, &d), back.is_settlement(&d)), &format!("({}, {})", bus(&cal, &d), cal.is_settlement(&d)), false);
                return true;
            }
            d = d + Days::new(1);
        }
    }
    false
}

pub fn probe(func: &str) -> bool {
    match func {
        "try_from" | "from_json" => probe_named_roundtrip(func),
        "new" => probe_cal_new(func) || probe_union(func) || probe_named(func),
        "is_weekday" | "is_holiday" | "is_settlement" => probe_union(func) || probe_named(func),
        "try_new" | "parse_cals" => probe_named(func),
        "eq" => probe_eq(func) || probe_union(func),
        _ => false,
    }
}
