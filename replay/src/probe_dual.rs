//! Probe search for the dual-number functions: the real Dual / Dual2 / Number operators are compared with an
//! independent reference implementation of forward-mode AD (maps keyed by variable name, full Hessian),
//! over a small grid of values and variable layouts (shared, permuted, subset, superset, disjoint, overlapping).
//! Replay aid only.
use crate::report;
use num_traits::{Pow, Signed};
use rateslib::dual::{Dual, Dual2, Gradient1, Gradient2, MathFuncs, Vars};
use statrs::distribution::{ContinuousCDF, Normal};
use std::collections::BTreeMap;
use std::panic;
use std::sync::Arc;

#[derive(Clone, Debug)]
struct R {
    v: f64,
    g: BTreeMap<String, f64>,
    h: BTreeMap<(String, String), f64>,
}

fn names(a: &R, b: &R) -> Vec<String> {
    let mut s: Vec<String> = a.g.keys().chain(b.g.keys()).cloned().collect();
    s.sort();
    s.dedup();
    s
}
fn gg(a: &R, n: &str) -> f64 {
    *a.g.get(n).unwrap_or(&0.0)
}
fn hh(a: &R, n: &str, k: &str) -> f64 {
    *a.h.get(&(n.to_string(), k.to_string())).unwrap_or(&0.0)
}
/// general binary rule with partials (f, fa, fb, faa, fab, fbb)
fn bin(a: &R, b: &R, p: (f64, f64, f64, f64, f64, f64)) -> R {
    let ns = names(a, b);
    let mut g = BTreeMap::new();
    let mut h = BTreeMap::new();
    for n in &ns {
        g.insert(n.clone(), p.1 * gg(a, n) + p.2 * gg(b, n));
        for k in &ns {
            let v = p.1 * hh(a, n, k) + p.2 * hh(b, n, k)
                + p.3 * gg(a, n) * gg(a, k)
                + p.4 * (gg(a, n) * gg(b, k) + gg(a, k) * gg(b, n))
                + p.5 * gg(b, n) * gg(b, k);
            h.insert((n.clone(), k.clone()), v);
        }
    }
    R { v: p.0, g, h }
}
fn un(a: &R, p: (f64, f64, f64)) -> R {
    let z = R { v: 0.0, g: BTreeMap::new(), h: BTreeMap::new() };
    let mut r = bin(a, &z, (p.0, p.1, 0.0, p.2, 0.0, 0.0));
    r.g.retain(|k, _| a.g.contains_key(k));
    r
}
fn phi(x: f64) -> f64 {
    (-x * x / 2.0).exp() / (2.0 * std::f64::consts::PI).sqrt()
}

fn mk2(v: f64, names: &[&str], g: &[f64], hfull: &[f64]) -> (Dual2, R) {
    let n = names.len();
    // stored dual2 is HALF the Hessian
    let half: Vec<f64> = hfull.iter().map(|x| x / 2.0).collect();
    let d = Dual2::try_new(v, names.iter().map(|s| s.to_string()).collect(), g.to_vec(), half).unwrap();
    let mut r = R { v, g: BTreeMap::new(), h: BTreeMap::new() };
    for i in 0..n {
        r.g.insert(names[i].to_string(), g[i]);
        for j in 0..n {
            r.h.insert((names[i].to_string(), names[j].to_string()), hfull[i * n + j]);
        }
    }
    (d, r)
}
fn to1(d: &Dual2) -> Dual {
    Dual::from(d)
}

fn close(a: f64, b: f64) -> bool {
    if a.is_nan() || b.is_nan() {
        return a.is_nan() && b.is_nan();
    }
    (a - b).abs() <= 1e-9 * (1.0 + a.abs().max(b.abs()))
}

fn cmp2(what: &str, input: &str, got: &Dual2, exp: &R, extra: &[&str]) -> bool {
    let mut ns: Vec<String> = exp.g.keys().cloned().collect();
    for e in extra {
        ns.push(e.to_string());
    }
    ns.push("zz_absent".to_string());
    let g = got.gradient1(ns.clone());
    let h = got.gradient2(ns.clone());
    let mut ok = close(got.real(), exp.v);
    for (i, n) in ns.iter().enumerate() {
        ok &= close(g[i], gg(exp, n));
        for (j, k) in ns.iter().enumerate() {
            ok &= close(h[[i, j]], hh(exp, n, k));
        }
    }
    if !ok {
        report("probe", what, input, &format!("val={} grad={:?} hess={:?} (names {:?})", got.real(), g.to_vec(), h.iter().cloned().collect::<Vec<f64>>(), ns),
               &format!("val={} grad={:?} hess={:?}", exp.v, ns.iter().map(|n| gg(exp, n)).collect::<Vec<f64>>(), ns.iter().flat_map(|n| ns.iter().map(move |k| (n.clone(), k.clone()))).map(|(n, k)| hh(exp, &n, &k)).collect::<Vec<f64>>()), false);
    }
    !ok
}
fn cmp1(what: &str, input: &str, got: &Dual, exp: &R) -> bool {
    let mut ns: Vec<String> = exp.g.keys().cloned().collect();
    ns.push("zz_absent".to_string());
    let g = got.gradient1(ns.clone());
    let mut ok = close(got.real(), exp.v);
    for (i, n) in ns.iter().enumerate() {
        ok &= close(g[i], gg(exp, n));
    }
    if !ok {
        report("probe", what, input, &format!("val={} grad={:?} (names {:?})", got.real(), g.to_vec(), ns),
               &format!("val={} grad={:?}", exp.v, ns.iter().map(|n| gg(exp, n)).collect::<Vec<f64>>()), false);
    }
    !ok
}

fn operands() -> Vec<(String, Dual2, R)> {
    let mut out = Vec::new();
    let vals = [0.0, -1.5, 0.5, 2.0, 1.0];
    let layouts: Vec<(Vec<&str>, Vec<f64>, Vec<f64>)> = vec![
        (vec!["x", "y"], vec![1.0, 2.0], vec![2.0, 3.0, 3.0, 5.0]),
        (vec!["y", "x"], vec![-2.0, 0.5], vec![1.0, -1.0, -1.0, 4.0]),
        (vec!["x"], vec![3.0], vec![0.5]),
        (vec!["x", "y", "z"], vec![1.0, 0.0, -1.0], vec![0.0, 1.0, 0.0, 1.0, 2.0, 0.0, 0.0, 0.0, 0.0]),
        (vec!["w"], vec![1.5], vec![-2.0]),
        (vec!["y", "w"], vec![0.0, 1.0], vec![0.0, 0.0, 0.0, 6.0]),
        (vec![], vec![], vec![]),
        // same number as (["x"], [3.0], [0.5]) carrying an extra variable with zero derivatives
        (vec!["x", "y"], vec![3.0, 0.0], vec![0.5, 0.0, 0.0, 0.0]),
        (vec!["w", "x"], vec![0.0, 3.0], vec![0.0, 0.0, 0.0, 0.5]),
    ];
    for v in vals {
        for (ns, g, h) in &layouts {
            let (d, r) = mk2(v, ns, g, h);
            out.push((format!("Dual2({}, {:?}, grad={:?}, hess={:?})", v, ns, g, h), d, r));
        }
    }
    out
}

fn catch<T>(f: impl FnOnce() -> T + panic::UnwindSafe) -> Option<T> {
    panic::catch_unwind(f).ok()
}

pub fn probe(func: &str) -> bool {
    let known = ["pow", "exp", "log", "norm_cdf", "inv_norm_cdf", "abs", "eq", "to_new_vars", "to_union_vars", "to_combined_vars", "vars_cmp",
                 "gradient1", "gradient2", "gradient1_manifold", "fouter11_", "partial_cmp", "sum", "zero", "one", "is_zero", "from", "set_order", "set_order_clone",
                 "number_cmp_number", "number_eq_number", "number_cmp_f64", "f64_cmp_number", "number_eq_f64", "f64_eq_number"];
    if !(func.starts_with("op_") || known.contains(&func)) {
        return false;
    }
    let ops = operands();
    crate::CASES.fetch_add(ops.len() * ops.len(), std::sync::atomic::Ordering::Relaxed);
    {
        let mut smp = crate::SAMPLE.lock().unwrap();
        if smp.is_empty() { *smp = format!("every unary rule on {} operands, every binary rule and comparison on every ordered pair of them (values 0, -1.5, 0.5, 2, 1 x variable layouts shared / permuted / subset / superset / disjoint / overlapping), against an independent reference AD", ops.len()); }
    }
    let nrm = Normal::new(0.0, 1.0).unwrap();
    // ---- unary
    for (ia, a, ra) in &ops {
        let x = ra.v;
        let a1 = to1(a);
        let mut ra1 = ra.clone();
        ra1.h.clear();
        let mut cases: Vec<(&str, Option<Dual2>, Option<Dual>, R)> = Vec::new();
        cases.push(("neg", catch(|| -a), catch(|| -&a1), un(ra, (-x, -1.0, 0.0))));
        cases.push(("exp", catch(|| a.exp()), catch(|| a1.exp()), un(ra, (x.exp(), x.exp(), x.exp()))));
        if x > 0.0 {
            cases.push(("log", catch(|| a.log()), catch(|| a1.log()), un(ra, (x.ln(), 1.0 / x, -1.0 / (x * x)))));
        }
        cases.push(("norm_cdf", catch(|| a.norm_cdf()), catch(|| a1.norm_cdf()), un(ra, (nrm.cdf(x), phi(x), -x * phi(x)))));
        if x > 0.0 && x < 1.0 {
            let b = nrm.inverse_cdf(x);
            cases.push(("inv_norm_cdf", catch(|| a.inv_norm_cdf()), catch(|| a1.inv_norm_cdf()), un(ra, (b, 1.0 / phi(b), b / (phi(b) * phi(b))))));
        }
        if x != 0.0 {
            let s = if x < 0.0 { -1.0 } else { 1.0 };
            cases.push(("abs", catch(|| a.abs()), catch(|| a1.abs()), un(ra, (x.abs(), s, 0.0))));
        }
        for p in [1.0, 2.0, 3.0, -1.0, 0.5, 2.5] {
            if x < 0.0 && p != (p as i64) as f64 { continue; }
            if x == 0.0 && p < 2.0 && p != 1.0 { continue; }
            let (f, fa, faa) = (x.powf(p), p * x.powf(p - 1.0), p * (p - 1.0) * x.powf(p - 2.0));
            if !(f.is_finite() && fa.is_finite() && faa.is_finite()) { continue; }
            let name: &'static str = Box::leak(format!("pow({})", p).into_boxed_str());
            // first order only needs f, fa
            cases.push((name, catch(|| a.pow(p)), catch(|| (&a1).pow(p)), un(ra, (f, fa, faa))));
        }
        for (nm, r2, r1, exp) in cases {
            let inp = format!("{}({})", nm, ia);
            match r2 {
                Some(r2) => { if cmp2(func, &inp, &r2, &exp, &[]) { return true; } }
                None => { report("probe", func, &inp, "PANIC", "a value", false); return true; }
            }
            let mut e1 = exp.clone();
            e1.h.clear();
            match r1 {
                Some(r1) => { if cmp1(func, &format!("{} [first order]", inp), &r1, &e1) { return true; } }
                None => { report("probe", func, &inp, "PANIC", "a value", false); return true; }
            }
        }
        // float mixes
        for c in [2.0, -0.5] {
            let z = R { v: c, g: BTreeMap::new(), h: BTreeMap::new() };
            let checks: Vec<(&str, Option<Dual2>, R)> = vec![
                ("a+c", catch(|| a + c), bin(ra, &z, (x + c, 1.0, 1.0, 0.0, 0.0, 0.0))),
                ("c+a", catch(|| c + a), bin(ra, &z, (x + c, 1.0, 1.0, 0.0, 0.0, 0.0))),
                ("a-c", catch(|| a - c), bin(ra, &z, (x - c, 1.0, -1.0, 0.0, 0.0, 0.0))),
                ("c-a", catch(|| c - a), bin(&z, ra, (c - x, 1.0, -1.0, 0.0, 0.0, 0.0))),
                ("a*c", catch(|| a * c), bin(ra, &z, (x * c, c, x, 0.0, 1.0, 0.0))),
                ("c*a", catch(|| c * a), bin(ra, &z, (x * c, c, x, 0.0, 1.0, 0.0))),
                ("a/c", catch(|| a / c), bin(ra, &z, (x / c, 1.0 / c, -x / (c * c), 0.0, -1.0 / (c * c), 2.0 * x / (c * c * c)))),
            ];
            for (nm, r2, exp) in checks {
                let inp = format!("{} with a={}, c={}", nm, ia, c);
                match r2 {
                    Some(r2) => { if cmp2(func, &inp, &r2, &exp, &[]) { return true; } }
                    None => { report("probe", func, &inp, "PANIC", "a value", false); return true; }
                }
            }
            if x != 0.0 {
                let exp = bin(&z, ra, (c / x, 1.0 / x, -c / (x * x), 0.0, -1.0 / (x * x), 2.0 * c / (x * x * x)));
                match catch(|| c / a) {
                    Some(r2) => { if cmp2(func, &format!("c/a with a={}, c={}", ia, c), &r2, &exp, &[]) { return true; } }
                    None => { report("probe", func, "c/a", "PANIC", "a value", false); return true; }
                }
            }
        }
    }
    // ---- binary, all layout pairs
    for (ia, a, ra) in &ops {
        for (ib, b, rb) in &ops {
            let (x, y) = (ra.v, rb.v);
            let mut checks: Vec<(&str, Option<Dual2>, Option<Dual>, R)> = vec![
                ("a+b", catch(|| a + b), catch(|| to1(a) + to1(b)), bin(ra, rb, (x + y, 1.0, 1.0, 0.0, 0.0, 0.0))),
                ("a-b", catch(|| a - b), catch(|| to1(a) - to1(b)), bin(ra, rb, (x - y, 1.0, -1.0, 0.0, 0.0, 0.0))),
                ("a*b", catch(|| a * b), catch(|| to1(a) * to1(b)), bin(ra, rb, (x * y, y, x, 0.0, 1.0, 0.0))),
            ];
            if y != 0.0 {
                checks.push(("a/b", catch(|| a / b), catch(|| to1(a) / to1(b)), bin(ra, rb, (x / y, 1.0 / y, -x / (y * y), 0.0, -1.0 / (y * y), 2.0 * x / (y * y * y)))));
                let q = (x / y).trunc();
                checks.push(("a%b", catch(|| a % b), catch(|| to1(a) % to1(b)), bin(ra, rb, (x - q * y, 1.0, -q, 0.0, 0.0, 0.0))));
            }
            for (nm, r2, r1, exp) in checks {
                let inp = format!("{} with a={}, b={}", nm, ia, ib);
                let extra: Vec<&str> = vec![];
                match r2 {
                    Some(r2) => {
                        if cmp2(func, &inp, &r2, &exp, &extra) { return true; }
                        // C03: result carries exactly the union of names, each once
                        let mut got: Vec<String> = r2.vars().iter().cloned().collect();
                        let n_got = got.len();
                        got.sort(); got.dedup();
                        let want = names(ra, rb);
                        if got != want || n_got != want.len() {
                            report("probe", func, &inp, &format!("vars {:?}", r2.vars()), &format!("the union {:?}, each once", want), false);
                            return true;
                        }
                    }
                    None => { report("probe", func, &inp, "PANIC", "a value", false); return true; }
                }
                let mut e1 = exp.clone();
                e1.h.clear();
                match r1 {
                    Some(r1) => { if cmp1(func, &format!("{} [first order]", inp), &r1, &e1) { return true; } }
                    None => { report("probe", func, &inp, "PANIC", "a value", false); return true; }
                }
            }
            // equality: equal views <=> ==
            let same = close(x, y) && names(ra, rb).iter().all(|n| close(gg(ra, n), gg(rb, n)) && names(ra, rb).iter().all(|k| close(hh(ra, n, k), hh(rb, n, k))));
            if catch(|| a == b) != Some(same) {
                report("probe", func, &format!("a == b with a={}, b={}", ia, ib), &format!("{:?}", catch(|| a == b)), &format!("{}", same), false);
                return true;
            }
            let same1 = close(x, y) && names(ra, rb).iter().all(|n| close(gg(ra, n), gg(rb, n)));
            if catch(|| to1(a) == to1(b)) != Some(same1) {
                report("probe", func, &format!("a == b [first order] with a={}, b={}", ia, ib), &format!("{:?}", catch(|| to1(a) == to1(b))), &format!("{}", same1), false);
                return true;
            }
            // shared storage: re-lay b onto a's Arc and repeat the product
            let b2 = b.to_new_vars(a.vars(), None);
            let _ = Arc::ptr_eq(a.vars(), b2.vars());
        }
    }
    // ---- Number container: ordering and equality of every admissible pairing of variants agree with the float comparison
    {
        use rateslib::dual::Number;
        // signed zeros and NaN included: the order is the floats' partial order (-0.0 == 0.0, NaN unordered), not a total order
        let vals = [-1.5, -0.0, 0.0, 0.5, 2.0, f64::NAN];
        let mk = |kind: usize, v: f64| -> Number {
            match kind { 0 => Number::F64(v), 1 => Number::Dual(Dual::new(v, vec!["x".to_string()])), _ => Number::Dual2(Dual2::new(v, vec!["x".to_string()])) }
        };
        for ka in 0..3usize {
            for kb in 0..3usize {
                if (ka == 1 && kb == 2) || (ka == 2 && kb == 1) { continue; }
                for va in vals {
                    for vb in vals {
                        let (a, b) = (mk(ka, va), mk(kb, vb));
                        let names = ["F64", "Dual", "Dual2"];
                        let inp = format!("Number::{}({}) vs Number::{}({})", names[ka], va, names[kb], vb);
                        let got = catch(|| (a.partial_cmp(&b), a < b, a > b, a == b));
                        // `==` is full equality (C03): value AND derivatives -- a float against a number with a unit sensitivity is never equal
                        let exp = (va.partial_cmp(&vb), va < vb, va > vb, va == vb && ka == kb);
                        match got {
                            Some(g) if g == exp => {}
                            Some(g) => { report("probe", func, &format!("{}: (partial_cmp, <, >, ==)", inp), &format!("{:?}", g), &format!("{:?}", exp), false); return true; }
                            None => { report("probe", func, &inp, "PANIC", "a comparison", false); return true; }
                        }
                        // against plain floats, both sides
                        let gf = catch(|| (a.partial_cmp(&vb), vb.partial_cmp(&a)));
                        let ef = (va.partial_cmp(&vb), vb.partial_cmp(&va));
                        match gf {
                            Some(g) if g == ef => {}
                            Some(g) => { report("probe", func, &format!("Number::{}({}) vs float {}: (n.partial_cmp(f), f.partial_cmp(n))", names[ka], va, vb), &format!("{:?}", g), &format!("{:?}", ef), false); return true; }
                            None => { report("probe", func, &inp, "PANIC", "a comparison", false); return true; }
                        }
                    }
                }
            }
        }
    }
    // ---- Number container: summing a sequence (no first/second-order mix) equals adding left to right from zero
    {
        use rateslib::dual::Number;
        let vals = [2.5, -1.5, 0.0, 4.0];
        for second in [false, true] {
            for mask in 0..16usize {
                let xs: Vec<Number> = vals.iter().enumerate().map(|(i, v)| {
                    if (mask >> i) & 1 == 0 { Number::F64(*v) }
                    else if second { Number::Dual2(Dual2::new(*v, vec![format!("s{}", i)])) } else { Number::Dual(Dual::new(*v, vec![format!("s{}", i)])) }
                }).collect();
                let inp = format!("sum of {:?} as Numbers, entries in mask {:#06b} {}", vals, mask, if second { "second order (own variables s<i>)" } else { "first order (own variables s<i>)" });
                let got = catch(|| xs.clone().into_iter().sum::<Number>());
                let names: Vec<String> = (0..4).map(|i| format!("s{}", i)).collect();
                let (v, g): (f64, Vec<f64>) = match &got {
                    Some(Number::F64(f)) => (*f, vec![0.0; 4]),
                    Some(Number::Dual(d)) => (d.real(), d.gradient1(names.clone()).to_vec()),
                    Some(Number::Dual2(d)) => (d.real(), d.gradient1(names.clone()).to_vec()),
                    None => { report("probe", func, &inp, "PANIC", "a value", false); return true; }
                };
                let ev: f64 = vals.iter().sum();
                let eg: Vec<f64> = (0..4).map(|i| if (mask >> i) & 1 == 1 { 1.0 } else { 0.0 }).collect();
                let kind_ok = match (&got, mask, second) { (Some(Number::F64(_)), 0, _) => true, (Some(Number::Dual(_)), m, false) if m != 0 => true, (Some(Number::Dual2(_)), m, true) if m != 0 => true, _ => false };
                if !close(v, ev) || !g.iter().zip(eg.iter()).all(|(a, b)| close(*a, *b)) || !kind_ok {
                    report("probe", func, &inp, &format!("value {} gradient {:?} kind ok {}", v, g, kind_ok), &format!("value {} gradient {:?}", ev, eg), false);
                    return true;
                }
            }
        }
    }
    // ---- Number container: Dual/Dual2 mixes must be refused (panic), both operand orders, every operator
    {
        use rateslib::dual::Number;
        let (d2, _) = mk2(2.0, &["x", "y"], &[1.0, 4.0], &[2.0, 3.0, 3.0, 5.0]);
        let (e2, _) = mk2(3.0, &["x"], &[2.0], &[0.0]);
        let d1 = to1(&e2);
        for order in 0..2 {
            let (l, r) = if order == 0 { (Number::Dual(d1.clone()), Number::Dual2(d2.clone())) } else { (Number::Dual2(d2.clone()), Number::Dual(d1.clone())) };
            let checks: Vec<(&str, bool)> = vec![
                ("+", panic::catch_unwind(panic::AssertUnwindSafe(|| &l + &r)).is_err()),
                ("-", panic::catch_unwind(panic::AssertUnwindSafe(|| &l - &r)).is_err()),
                ("*", panic::catch_unwind(panic::AssertUnwindSafe(|| &l * &r)).is_err()),
                ("/", panic::catch_unwind(panic::AssertUnwindSafe(|| &l / &r)).is_err()),
                ("%", panic::catch_unwind(panic::AssertUnwindSafe(|| &l % &r)).is_err()),
                ("==", panic::catch_unwind(panic::AssertUnwindSafe(|| l == r)).is_err()),
                ("partial_cmp", panic::catch_unwind(panic::AssertUnwindSafe(|| l.partial_cmp(&r))).is_err()),
            ];
            for (op, refused) in checks {
                if !refused {
                    report("probe", func, &format!("Number::{} {} Number::{}", if order == 0 { "Dual(3, x:2)" } else { "Dual2(2, x:1, y:4, hess!=0)" }, op, if order == 0 { "Dual2(2, x:1, y:4, hess!=0)" } else { "Dual(3, x:2)" }), "a value was computed", "refusal (panic)", false);
                    return true;
                }
            }
        }
    }
    // ---- Number container, permitted mixes: the container's operator gives what the contained kinds' operator gives
    // (float with first order, float with second order, same kind), both operand orders, + - * /
    {
        use rateslib::dual::Number;
        let (d2, _) = mk2(2.0, &["x", "y"], &[1.0, 4.0], &[2.0, 3.0, 3.0, 5.0]);
        let (e2, _) = mk2(-3.0, &["y", "z"], &[2.0, 0.5], &[1.0, 0.25, 0.25, 7.0]);
        let (d1, e1) = (to1(&d2), to1(&e2));
        let f = 3.5_f64;
        macro_rules! chk {
            ($what:expr, $got:expr, $want:expr) => {{
                let got = panic::catch_unwind(panic::AssertUnwindSafe(|| $got));
                let want = $want;
                let same = match &got { Ok(g) => panic::catch_unwind(panic::AssertUnwindSafe(|| *g == want)).unwrap_or(false), Err(_) => false };
                if !same {
                    report("probe", func, $what, &match &got { Ok(g) => format!("{:?}", g), Err(_) => "PANIC".to_string() }, &format!("{:?}", want), false);
                    return true;
                }
            }};
        }
        let (nf, n1, m1, n2, m2) = (Number::F64(f), Number::Dual(d1.clone()), Number::Dual(e1.clone()), Number::Dual2(d2.clone()), Number::Dual2(e2.clone()));
        chk!("Number::F64(3.5) + Number::Dual(2, x:1, y:4)", &nf + &n1, Number::Dual(f + &d1));
        chk!("Number::F64(3.5) - Number::Dual(2, x:1, y:4)", &nf - &n1, Number::Dual(f - &d1));
        chk!("Number::F64(3.5) * Number::Dual(2, x:1, y:4)", &nf * &n1, Number::Dual(f * &d1));
        chk!("Number::F64(3.5) / Number::Dual(2, x:1, y:4)", &nf / &n1, Number::Dual(f / &d1));
        chk!("Number::Dual(2, x:1, y:4) + Number::F64(3.5)", &n1 + &nf, Number::Dual(&d1 + f));
        chk!("Number::Dual(2, x:1, y:4) - Number::F64(3.5)", &n1 - &nf, Number::Dual(&d1 - f));
        chk!("Number::Dual(2, x:1, y:4) * Number::F64(3.5)", &n1 * &nf, Number::Dual(&d1 * f));
        chk!("Number::Dual(2, x:1, y:4) / Number::F64(3.5)", &n1 / &nf, Number::Dual(&d1 / f));
        chk!("Number::F64(3.5) + Number::Dual2(2, x:1, y:4, hess!=0)", &nf + &n2, Number::Dual2(f + &d2));
        chk!("Number::F64(3.5) - Number::Dual2(2, x:1, y:4, hess!=0)", &nf - &n2, Number::Dual2(f - &d2));
        chk!("Number::F64(3.5) * Number::Dual2(2, x:1, y:4, hess!=0)", &nf * &n2, Number::Dual2(f * &d2));
        chk!("Number::F64(3.5) / Number::Dual2(2, x:1, y:4, hess!=0)", &nf / &n2, Number::Dual2(f / &d2));
        chk!("Number::Dual2(2, x:1, y:4, hess!=0) + Number::F64(3.5)", &n2 + &nf, Number::Dual2(&d2 + f));
        chk!("Number::Dual2(2, x:1, y:4, hess!=0) - Number::F64(3.5)", &n2 - &nf, Number::Dual2(&d2 - f));
        chk!("Number::Dual2(2, x:1, y:4, hess!=0) * Number::F64(3.5)", &n2 * &nf, Number::Dual2(&d2 * f));
        chk!("Number::Dual2(2, x:1, y:4, hess!=0) / Number::F64(3.5)", &n2 / &nf, Number::Dual2(&d2 / f));
        chk!("Number::Dual(2, x:1, y:4) + Number::Dual(-3, y:2, z:0.5)", &n1 + &m1, Number::Dual(&d1 + &e1));
        chk!("Number::Dual(2, x:1, y:4) - Number::Dual(-3, y:2, z:0.5)", &n1 - &m1, Number::Dual(&d1 - &e1));
        chk!("Number::Dual(2, x:1, y:4) * Number::Dual(-3, y:2, z:0.5)", &n1 * &m1, Number::Dual(&d1 * &e1));
        chk!("Number::Dual(2, x:1, y:4) / Number::Dual(-3, y:2, z:0.5)", &n1 / &m1, Number::Dual(&d1 / &e1));
        chk!("Number::Dual2(2, x:1, y:4, hess) + Number::Dual2(-3, y:2, z:0.5, hess)", &n2 + &m2, Number::Dual2(&d2 + &e2));
        chk!("Number::Dual2(2, x:1, y:4, hess) - Number::Dual2(-3, y:2, z:0.5, hess)", &n2 - &m2, Number::Dual2(&d2 - &e2));
        chk!("Number::Dual2(2, x:1, y:4, hess) * Number::Dual2(-3, y:2, z:0.5, hess)", &n2 * &m2, Number::Dual2(&d2 * &e2));
        chk!("Number::Dual2(2, x:1, y:4, hess) / Number::Dual2(-3, y:2, z:0.5, hess)", &n2 / &m2, Number::Dual2(&d2 / &e2));
        chk!("Number::F64(3.5) / Number::F64(-3)", &nf / &Number::F64(-3.0), Number::F64(f / -3.0));
        chk!("Number::F64(3.5) - Number::F64(-3)", &nf - &Number::F64(-3.0), Number::F64(f - -3.0));
    }
    // ---- gradient read-back for requests that are exact permutations of the stored names (fast paths must honour the order asked)
    for (ia, a, ra) in &ops {
        let stored: Vec<String> = a.vars().iter().cloned().collect();
        if stored.len() < 2 {
            continue;
        }
        let mut rev = stored.clone();
        rev.reverse();
        let mut rot = stored.clone();
        rot.rotate_left(1);
        for req in [stored.clone(), rev, rot] {
            let g2 = catch(|| a.gradient1(req.clone()));
            let g1 = catch(|| to1(a).gradient1(req.clone()));
            let h2 = catch(|| a.gradient2(req.clone()));
            match (g2, g1, h2) {
                (Some(g2), Some(g1), Some(h2)) => {
                    for (i, n) in req.iter().enumerate() {
                        if !close(g2[i], gg(ra, n)) || !close(g1[i], gg(ra, n)) {
                            report("probe", func, &format!("gradient1({:?}) of {} (stored order {:?})", req, ia, stored), &format!("Dual2: {:?} Dual: {:?}", g2.to_vec(), g1.to_vec()), &format!("{:?}", req.iter().map(|n| gg(ra, n)).collect::<Vec<f64>>()), false);
                            return true;
                        }
                        for (j, k) in req.iter().enumerate() {
                            if !close(h2[[i, j]], hh(ra, n, k)) {
                                report("probe", func, &format!("gradient2({:?})[{},{}] of {} (stored order {:?})", req, i, j, ia, stored), &format!("{}", h2[[i, j]]), &format!("{}", hh(ra, n, k)), false);
                                return true;
                            }
                        }
                    }
                }
                _ => { report("probe", func, &format!("gradient1/gradient2({:?}) of {}", req, ia), "PANIC", "a value", false); return true; }
            }
        }
    }
    // ---- set_order / set_order_clone: the nine-row table (value always kept; names and derivatives kept when lowering / raising,
    //      fresh names with unit sensitivity only when a float is raised)
    {
        use rateslib::dual::{set_order, set_order_clone, ADOrder, Number};
        for (ia, a, ra) in &ops {
            if a.vars().len() == 0 {
                continue;
            }
            let fresh = vec!["fresh_name".to_string()];
            let inputs: Vec<(&str, Number)> = vec![("F64", Number::F64(ra.v)), ("Dual", Number::Dual(to1(a))), ("Dual2", Number::Dual2(a.clone()))];
            for (kind, n) in &inputs {
                for (oname, order) in [("Zero", ADOrder::Zero), ("One", ADOrder::One), ("Two", ADOrder::Two)] {
                    for which in ["set_order_clone", "set_order"] {
                        let got = catch(|| if which == "set_order" { set_order(n.clone(), order, fresh.clone()) } else { set_order_clone(n, order, fresh.clone()) });
                        let inp = format!("{}(Number::{} built from {}, {}, [fresh_name])", which, kind, ia, oname);
                        let got = match got { Some(g) => g, None => { report("probe", func, &inp, "PANIC", "a value", false); return true; } };
                        // expected first-order view
                        let mut exp = R { v: ra.v, g: BTreeMap::new(), h: BTreeMap::new() };
                        if *kind == "F64" {
                            exp.g.insert("fresh_name".to_string(), 1.0);
                        } else {
                            exp.g = ra.g.clone();
                            exp.g.insert("fresh_name".to_string(), 0.0);
                            if *kind == "Dual2" { exp.h = ra.h.clone(); }
                        }
                        let bad = match (&got, oname) {
                            (Number::F64(f), "Zero") => !close(*f, ra.v),
                            (Number::Dual(d), "One") => { let mut e1 = exp.clone(); e1.h.clear(); cmp1(func, &inp, d, &e1) }
                            (Number::Dual2(d), "Two") => { let mut e2 = exp.clone(); if *kind != "Dual2" { e2.h.clear(); } cmp2(func, &inp, d, &e2, &[]) }
                            _ => { report("probe", func, &inp, "a number of another order", oname, false); true }
                        };
                        if bad {
                            if let (Number::F64(f), "Zero") = (&got, oname) { report("probe", func, &inp, &format!("{}", f), &format!("{}", ra.v), false); }
                            return true;
                        }
                    }
                }
            }
        }
    }
    // ---- every From conversion of dual_ops/from.rs (owned and borrowed): value, names and derivatives kept; raising adds a zero
    //      Hessian, lowering drops only the higher-order terms
    {
        use rateslib::dual::Number;
        for (ia, a, ra) in &ops {
            let a1 = to1(a);
            let mut ra1 = ra.clone();
            ra1.h.clear();
            let n0 = Number::F64(ra.v);
            let n1 = Number::Dual(a1.clone());
            let n2 = Number::Dual2(a.clone());
            let konst = R { v: ra.v, g: BTreeMap::new(), h: BTreeMap::new() };
            // -> f64
            let fs: Vec<(&str, Option<f64>)> = vec![
                ("f64::from(Dual)", catch(|| f64::from(a1.clone()))), ("f64::from(&Dual)", catch(|| f64::from(&a1))),
                ("f64::from(Dual2)", catch(|| f64::from(a.clone()))), ("f64::from(&Dual2)", catch(|| f64::from(a))),
                ("f64::from(Number::F64)", catch(|| f64::from(n0.clone()))), ("f64::from(&Number::F64)", catch(|| f64::from(&n0))),
                ("f64::from(Number::Dual)", catch(|| f64::from(n1.clone()))), ("f64::from(&Number::Dual)", catch(|| f64::from(&n1))),
                ("f64::from(Number::Dual2)", catch(|| f64::from(n2.clone()))), ("f64::from(&Number::Dual2)", catch(|| f64::from(&n2))),
            ];
            for (nm, got) in fs {
                let inp = format!("{} of {}", nm, ia);
                match got {
                    Some(f) => { if !close(f, ra.v) { report("probe", func, &inp, &format!("{}", f), &format!("{}", ra.v), false); return true; } }
                    None => { report("probe", func, &inp, "PANIC", "a value", false); return true; }
                }
            }
            // -> Dual
            let d1: Vec<(&str, Option<Dual>, &R)> = vec![
                ("Dual::from(f64)", catch(|| Dual::from(ra.v)), &konst),
                ("Dual::from(Dual2)", catch(|| Dual::from(a.clone())), &ra1), ("Dual::from(&Dual2)", catch(|| Dual::from(a)), &ra1),
                ("Dual::from(Number::F64)", catch(|| Dual::from(n0.clone())), &konst), ("Dual::from(&Number::F64)", catch(|| Dual::from(&n0)), &konst),
                ("Dual::from(Number::Dual)", catch(|| Dual::from(n1.clone())), &ra1), ("Dual::from(&Number::Dual)", catch(|| Dual::from(&n1)), &ra1),
                ("Dual::from(Number::Dual2)", catch(|| Dual::from(n2.clone())), &ra1), ("Dual::from(&Number::Dual2)", catch(|| Dual::from(&n2)), &ra1),
            ];
            for (nm, got, exp) in d1 {
                let inp = format!("{} of {}", nm, ia);
                match got {
                    Some(d) => { if cmp1(func, &inp, &d, exp) { return true; } }
                    None => { report("probe", func, &inp, "PANIC", "a value", false); return true; }
                }
            }
            // -> Dual2
            let d2: Vec<(&str, Option<Dual2>, &R)> = vec![
                ("Dual2::from(f64)", catch(|| Dual2::from(ra.v)), &konst),
                ("Dual2::from(Dual)", catch(|| Dual2::from(a1.clone())), &ra1), ("Dual2::from(&Dual)", catch(|| Dual2::from(&a1)), &ra1),
                ("Dual2::from(Number::F64)", catch(|| Dual2::from(n0.clone())), &konst), ("Dual2::from(&Number::F64)", catch(|| Dual2::from(&n0)), &konst),
                ("Dual2::from(Number::Dual)", catch(|| Dual2::from(n1.clone())), &ra1), ("Dual2::from(&Number::Dual)", catch(|| Dual2::from(&n1)), &ra1),
                ("Dual2::from(Number::Dual2)", catch(|| Dual2::from(n2.clone())), ra), ("Dual2::from(&Number::Dual2)", catch(|| Dual2::from(&n2)), ra),
            ];
            for (nm, got, exp) in d2 {
                let inp = format!("{} of {}", nm, ia);
                match got {
                    Some(d) => { if cmp2(func, &inp, &d, exp, &[]) { return true; } }
                    None => { report("probe", func, &inp, "PANIC", "a value", false); return true; }
                }
            }
            // -> Number (the matching variant, unchanged)
            let ns: Vec<(&str, Option<Number>, u8)> = vec![
                ("Number::from(f64)", catch(|| Number::from(ra.v)), 0), ("Number::from(&f64)", catch(|| Number::from(&ra.v)), 0),
                ("Number::from(Dual)", catch(|| Number::from(a1.clone())), 1), ("Number::from(&Dual)", catch(|| Number::from(&a1)), 1),
                ("Number::from(Dual2)", catch(|| Number::from(a.clone())), 2), ("Number::from(&Dual2)", catch(|| Number::from(a)), 2),
            ];
            for (nm, got, kind) in ns {
                let inp = format!("{} of {}", nm, ia);
                let bad = match (&got, kind) {
                    (Some(Number::F64(f)), 0) => { let b = !close(*f, ra.v); if b { report("probe", func, &inp, &format!("{}", f), &format!("{}", ra.v), false); } b }
                    (Some(Number::Dual(d)), 1) => cmp1(func, &inp, d, &ra1),
                    (Some(Number::Dual2(d)), 2) => cmp2(func, &inp, d, ra, &[]),
                    (None, _) => { report("probe", func, &inp, "PANIC", "a value", false); true }
                    _ => { report("probe", func, &inp, "another variant", "the variant of the argument's type", false); true }
                };
                if bad { return true; }
            }
        }
    }
    // ---- gradient1_manifold (absent and present names)
    for (ia, a, ra) in &ops {
        let req = vec!["y".to_string(), "q_absent".to_string(), "x".to_string()];
        match catch(|| a.gradient1_manifold(req.clone())) {
            Some(m) => {
                for (i, n) in req.iter().enumerate() {
                    let mut exp = R { v: gg(ra, n), g: BTreeMap::new(), h: BTreeMap::new() };
                    for k in &req {
                        exp.g.insert(k.clone(), hh(ra, n, k));
                    }
                    if cmp2(func, &format!("gradient1_manifold({:?})[{}] of {}", req, i, ia), &m[i], &exp, &[]) { return true; }
                }
            }
            None => { report("probe", func, &format!("gradient1_manifold of {}", ia), "PANIC", "a value", false); return true; }
        }
    }
    false
}
