//! probe searches for the dual-number functions (filled in with the dual units)
pub fn probe(_func: &str) -> bool {
    false
}
